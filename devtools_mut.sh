#!/bin/bash
# developer aid: apply a sed mutation to a /repo file, run checks, restore.  usage: devtools_mut.sh <file> <sed-expr> <ID> [<ID>...]
f="$1"; expr="$2"; shift 2
cd /repo || exit 9
if ! git diff --quiet; then echo "repo dirty"; exit 9; fi
sed -i "$expr" "$f"
if git diff --quiet; then echo "MUTATION DID NOT APPLY"; exit 9; fi
git diff | grep '^[-+][^-+]'
cd /verif
for id in "$@"; do
  out=$(./vcheck "$id" 2>&1); code=$?
  echo "$id exit=$code $(echo "$out" | grep -c '^VIOLATION') violations; $(echo "$out" | grep -m2 'what:')"
  echo "$out" | grep -m3 "INCONCLUSIVE\|HARNESS-ERROR"
done
cd /repo && git checkout -- . 
