#!/bin/bash
# developer aid: stage round-r deliverables of a sub-agent (/tmp/w<r>_<PID>/_seed/{change,demo,notes}{1,2}) as changes k=2r-1, 2r for devtools_seed.py
pid=$1; r=$2; d=${3:-$2}  # d: round number in the directory name when it differs
mkdir -p /tmp/wt_$pid/_seed
for k in 1 2; do
  n=$((2*r-2+k))
  for f in change$k.diff:change$n.diff demo$k.py:demo$n.py notes$k.md:notes$n.md; do
    cp /tmp/w${d}_$pid/_seed/${f%%:*} /tmp/wt_$pid/_seed/${f##*:} 2>/dev/null || echo "missing ${f%%:*}"
  done
done
ls /tmp/wt_$pid/_seed
