#!/bin/bash
# developer aid: run a check against a scratch worktree (default /var/tmp/seedtree4) instead of /repo, evidence to /var/tmp
T="${DV_TREE:-/var/tmp/seedtree4}"
cd /verif && PYTHONPATH=$T/src YADISM_SRC=$T/src/yadism VERIF_EVIDENCE_DIR=/var/tmp/x_ev2 VERIF_REPLAY_DIR=/var/tmp/x_ev2 ./vcheck "$@"
