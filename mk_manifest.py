#!/usr/bin/env python3
"""Regenerates MANIFEST.json from the table below (developer aid; the JSON is what is committed)."""
import json
import os

HERE = os.path.dirname(os.path.abspath(__file__))

TRUST = ("z3 5.1.0 (thorough tier cross-checks every decided query with cvc5 1.4.0 and z3 4.8.12); the proxy arithmetic "
         "(validated on each run against the real functions on floats); floats read as exact rationals; Python (JIT-off) "
         "semantics of the kernels; the stubs listed in the evidence file")

CHECKS = {
    "C04": dict(
        text="(1) NLO closed forms: the NLO kernels, reached through the light.{f2,fl,f3,g1}_{nc,cc} channel classes, "
             "run on a symbolic z (branches inside kernels forked) and z3 proves, as an exact identity in (z, ln z, ln(1-z)), equality "
             "of regular parts, plus-distribution coefficients and (to 1e-12) delta coefficients with the published MS-bar closed forms "
             "for quark and gluon, nf 3..6. (2) First moments: the regular part of every non-singlet kernel entering the Adler "
             "(F2 CC odd), GLS (F3 NC/CC odd incl. the fl02 class) and Bjorken (g1) sum rules at NLO, NNLO, N3LO is executed on a formal z, "
             "which yields its exact expansion sum c(nf) z^a ln^b z ln^c(1-z) (1-z)^-d; integrated term by term (35-digit table of the "
             "monomial integrals) and added to the local part at x=0 the moment is a polynomial in nf, and z3 proves |moment - series "
             "coefficient| <= tau for EVERY real nf in [3,6] (tau = 1e-9 NLO; 0.03 NNLO and 0.25 N3LO = accuracy of the published "
             "parametrisations). NOT claimed: Mellin moments other than N=1.",
        note=TRUST + "; oracle written from Bardeen et al./Furmanski-Petronzio (F2, FL, F3) and Zijlstra-van Neerven/de Florian-Sassot "
             "(g1) in the a_s = alpha_s/4pi normalisation; zeta2 as a 30-digit rational; series coefficients from Gorishny-Larin 1986 and "
             "Larin-Vermaseren 1991. In (2) the z-integration is NOT done by the solver: it is the linear functional of the formal expansion "
             "with a constants table (mpmath quadrature validated against 45 closed-form identities on every run); the expansion is "
             "validated against the float kernel at 3 points per kernel; the solver decides the remaining for-all-nf statement. A change "
             "that moves a moment by less than tau is not seen.",
        technique="symbolic execution of the kernels (z3 proxies with path exploration; formal-expansion proxies for the moments) + z3 NRA "
                  "identity with published closed forms / for-all-nf bound on the first moments",
        design="§4 C04",
    ),
    "C16": dict(
        text="A: the real Combiner, kernel generators, channel constructors and order methods run for the cells of the configuration "
             "lattice kind x heavyness x process x projectile x scheme/NfFF/FONLL-part x PTO with Q2 symbolic (all threshold paths); "
             "only explicit rejections (ValueError/NotImplementedError/RuntimeError with message) are admissible exceptions. B: every "
             "RSL part of every channel class runs at a symbolic z with the argument vector the class packs. C: the SF front door, "
             "real ESF and TMC classes run on UNRESTRICTED symbolic x, Q2, x_min: z3 proves result => inside the domain and "
             "rejection (TMC=0) => outside, on every path. A2: the real compute_local over PTODIS x PTO(evolution) x switches. D: the NaN/inf "
             "scrubber over the valid observable names. Rejections count only if raised by an explicit `raise` (AST check). E: CrossHair: "
             "ObservableName is total on short strings. Thorough tier covers the complete lattice product."
             " A point to which no channel contributes still carries every order key; every path of the kinematics clause is also executed on plain floats at its own point; parts that take int()/float() of a symbolic quantity are reported as undecided, not skipped.",
        note=TRUST + "; CrossHair 0.0.110 (strings <= 4 chars); EW weights concrete in part A; NaNs produced inside external libraries "
             "are outside (the scrubber's totality is what is checked); quick tier takes a fixed 3% hash-selected subset of the lattice.",
        technique="symbolic execution of the real dispatch/validation code (z3 proxies, path exploration) over the enumerated lattice + CrossHair",
        engine="symex+crosshair",
        design="§4 C16",
    ),
    "C18": dict(
        text="PARTIAL. (1) Bounds: every RSL part of every channel class x order x nf, every splitting label and the TMC kernels "
             "run (Python semantics, JIT off) at a symbolic z on all feasible paths with the argument vector the calling class really "
             "packs wrapped in a bounds-recording array; every element access must satisfy 0 <= i < len (negative indices included). "
             "(2) Typed semantics: every @njit kernel of the current tree (143) is instrumented by an AST rewrite and swapped in place; the "
             "same symbolic runs, plus li2, s2, nielsen(n,m,.) and wgplg(n,m,.) for every legal (n,m) on an UNRESTRICTED symbolic real "
             "argument (all feasible paths, incl. X == 1, X == -1), record every place where numba's typed semantics differ from the "
             "interpreter's in a modelled way: lossy declared signature (anything but f8/c16/i8/f8[:]), integer ** negative integer "
             "(0 in typed code), int64 overflow in + - * **, unbound local / exception on a feasible path (compiled code returns an "
             "uninitialised value). No such event may be reachable. A finding is replayed against the MACHINE CODE: the kernel is "
             "compiled with the JIT enabled in a sub-process and compared with its py_func at the witness arguments. NOT claimed: "
             "agreement of the LLVM code with the interpreter beyond the modelled classes (code generation, rounding) and JIT-on = JIT-off "
             "for whole runs."
             " Also flagged: Python lists, 0-d / read-only / non-float64 arrays at f8[:] parameters and complex-typed return expressions of f8 kernels (static typing).",
        note="Python semantics of the kernels (NUMBA_DISABLE_JIT=1); the numba/LLVM artefact itself is analysed only in replays; the list of "
             "modelled divergence classes (engine/nbmodel.py) is the trust base of clause (2); external libraries as atoms.",
        technique="symbolic execution of the (AST-instrumented) kernels with bounds-recording argument vectors and typed-semantics hooks "
                  "(z3 proxies, path exploration); replay of findings against the numba-compiled machine code",
        design="§4 C18",
    ),
    "C15": dict(
        text="The real Output.{get_raw,dump_yaml,load_yaml,dump_tar,load_tar} and ESFResult/EXSResult.{get_raw,from_document} run on "
             "outputs whose numbers are symbolic tokens, with PyYAML / npz / tarfile / tempfile / pathlib replaced by in-memory "
             "contracts (YAML = identity on YAML-native data, error otherwise); the structure lattice (SF and XS observables, "
             "None/0/1/2 points, 1..3 order keys, nf None/int) x format chains (yaml, tar and all two-step cycles) is enumerated "
             "and every field of the loaded object must be the same token as in the original; the dumped object must be "
             "unchanged. Failures are replayed with the real libraries on disk."
             " Outputs holding both spellings of one observable (F2 and F2_total) are included, and loading ANOTHER output afterwards must leave an already loaded object unchanged."
             " Narrowing dtype casts on the way to disk are uninterpreted functions of the token (no longer provably lossless); cross sections whose points all sit at y = 0.0 are included.",
        note="proxy tokens (z3 terms compared structurally), the I/O contracts listed in the evidence (byte-level fidelity of PyYAML "
             "and NumPy is assumed), Python semantics; cards containing non-YAML types are outside.",
        technique="bounded symbolic execution of the real (de)serialisation code on symbolic tokens with I/O contracts, exhaustive structure lattice",
        design="§4 C15",
    ),
    "C17": dict(
        text="The real ESFResult/EXSResult.apply_pdf run on symbolic operator entries (up to five order keys with mixed log and alpha "
             "powers), symbolic grid nodes, Q2, xiR, xiF and uninterpreted PDF/alpha_s/alpha; z3 proves result and error equal to "
             "the documented contraction, that the PDF is evaluated only at muF^2 = xiF^2 Q2 and never for flavours it lacks, and "
             "that composite PDFs a f + b g go through the same (linear) formula. Output.apply_pdf_theory runs with eko replaced "
             "by recorders for every scheme: alpha_s(muR^2) with nf_to = NfFF (fixed-flavour) or the flavours active at muR "
             "(ZM-VFNS), built from the card's couplings/order/method/masses/(m k)^2 scales, times 4 pi."
             " apply_pdf_theory is also called with a card that differs from the one stored in the output: the card passed in is the one that counts.",
        note=TRUST + "; eko's running coupling itself is outside; the Output-level wiring part is a concrete recorder run per scheme.",
        technique="symbolic execution of apply_pdf with uninterpreted PDF/couplings (z3 QF_UFNRA equality) + recorder run of the coupling wiring",
        design="§4 C17",
    ),
    "C14": dict(
        text="(1) The real StructureFunction.get_esf runs after a symbolic history of up to two earlier requests (symbolic kinematic "
             "values, BOTH key orders of the kinematics dict, both use_raw flags, TMC on/off); tuple-key equality inside the dict "
             "lookup is a solver decision, all hit/miss paths are explored and z3 proves the returned object carries the requested "
             "x, Q2 and TMC-ness. (2) The real Runner.get_result on up to four elements with symbolic Q2: every ordering and tie "
             "is a solver-feasible path of sorted(); output[name][i] is the result of elements[i], unplanned observables do not "
             "leak. (3) compute_raw / n3lo.interpolator memos are transparent, fact_matrices does not modify the operator memo (symbolic 2x2 "
             "operators) and ren_coeffs(nf) is independent of the nf values asked before. (4) ESF.get_result returns a private deep copy."
             " The scale-variation tensors a compute_local emits for nf from a manager that has served other nf before equal those from a fresh manager."
             " A point listed twice keeps both slots; a from_dict-built couplings object answers independently of earlier requests; the user's scale-variation switches on the shared manager are not state."
             " (5) Kernel lists of later points at the same symbolic Q2 built by the real Combiner on the run's shared configuration/couplings/target objects (symbolic Z, A, EW parameters, orders 0/2/3) are proved equal to those of a single-point run.",
        note=TRUST + "; bounded history (<= 2 earlier requests) instead of an arbitrary pre-state: the cache key has no other state, "
             "one earlier entry suffices for a collision; bit-for-bit float equality is outside (reals).",
        technique="symbolic execution of the real cache/ordering code with symbolic dict keys (z3 decisions) + path exploration",
        design="§4 C14",
    ),
    "C06": dict(
        text="The REAL Runner.__init__ (compatibility.update, eko Atlas, SF.load -> real ESF) and the real Combiner run on symbolic "
             "masses, threshold ratios and Q2 with np.digitize replaced by its documented meaning; on every feasible path z3 proves "
             "nf == 3 + #{(m k)^2 <= Q2} (ZM-VFNS, equality included), nf == NfFF at every Q2 for FFNS/FFN0/FONLL-*, that the "
             "scale-variation manager is handed the same nf and that kernel lists depend on thresholds only through nf. CrossHair "
             "confirms over all paths for an UNBOUNDED int NfFF that update_fns yields clamp(NfFF-3,0,3) zero thresholds followed "
             "by inf ones with the documented massless flags; unknown schemes raise ValueError. The beta coefficients emitted by the real "
             "apply_raw_diff_scale_variations equal beta0(nf), beta1(nf), beta0(nf)^2 for nf sequences on one shared manager."
             " The coefficient functions of flavour-tagged observables (ZM-VFNS) and of the heavy/light/asymptotic channels (FFNS, FFN0) must be built for the same number of flavours; the CrossHair harness of update_fns also starts from cards with stale ZMc/ZMb/ZMt keys."
             " Flavour census for EM/NC/CC and nf = 3..6: the quarks whose weight in the massless kernels is not identically zero are exactly 1..nf; with a symbolic CKM matrix every CC non-singlet weight is proved equal to 2 sum |V|^2 over the active partners.",
        note=TRUST + "; CrossHair 0.0.110 for update_fns; reals have no ulp: the boundary convention at equality is covered; "
             "unordered matching scales (np.digitize raises) are outside.",
        technique="symbolic execution of the real Runner/Combiner (z3 proxies, all paths) + CrossHair on update_fns",
        engine="symex+crosshair",
        design="§4 C06",
    ),
    "C20": dict(
        text="CrossHair confirms over all paths (symbolic ints/bools/enum indices, one harness per option group) that "
             "compatibility.update leaves the caller's dicts and nested objects untouched, returns new objects with the documented "
             "content, is idempotent, and that unknown targets raise ValueError without side effects. The real Runner.__init__ + "
             "get_result run on cards with symbolic masses/thresholds/kinematics over all feasible paths: a deep identity snapshot "
             "of the cards is unchanged after construction, repeated construction and get_result; the output echoes the given "
             "cards, grid, pids and projectilePID."
             " Cards that omit one optional key (one cell per top-level key whose omission yadism accepts) and cards whose points are listed in non-monotonic Q2 order are included."
             " Every observable has its own points, one listed twice, bare kinds and both spellings of one observable are requested side by side, the grid and the CKM matrix also come as numpy arrays.",
        note=TRUST + "; CrossHair 0.0.110; floats concrete in the CrossHair harnesses; numerics stubbed to zeros in the runner part; "
             "mutation by eko/rich internals outside.",
        technique="CrossHair symbolic execution of compatibility.update + symbolic execution of the real Runner with identity snapshots",
        engine="crosshair+symex",
        design="§4 C20",
    ),
    "C05": dict(
        text="Mellin-scalar operator model: ScaleVariations.operators is pre-populated with 1x1 symbolic matrices (composite labels "
             "= the products they name) so the real compute_raw skips the quadrature; the real ScaleVariations.*, "
             "sector_mapping, eko projectors/beta and ESF.compute_local (incl. the intrinsic filter) then run on symbolic "
             "central coefficients and parton weights. The emitted tensors are differentiated with a hand-written "
             "flavour-basis DGLAP + beta-function oracle and z3 proves every monomial of dF/dln muF^2 (a_s^k, k<=min(pto,2)) "
             "and dF/dln muR^2 (k<=pto) identically zero, nf 3..6, pto 1..3, four switch combinations; switched-off logs "
             "vanish, other tensors unchanged; intrinsic channel emits no muF log. No test checks an RGE at all."
             " The manager is also taken as the REAL Runner builds it from cards with PTODIS != PTO (logs must reach a_s^PTODIS).",
        note=TRUST + "; that the analytic kernels are the convolutions their labels name and that NLO splitting functions equal "
             "the literature is outside; eko projector entries are read as the nearest simple rational (within 1e-12).",
        technique="symbolic execution of the real scale-variation code on symbolic Mellin moments + z3 polynomial identity (RGE residuals)",
        design="§4 C05",
    ),
    "C01": dict(
        text="Part A: the real conv.convolution / quad_ker_* run on a GENERIC distribution (uninterpreted R(z), S(z), L(x); all 8 "
             "shapes), a generic basis function with symbolic area borders (log and linear) and symbolic x; all feasible paths "
             "are explored and z3 proves the integrand handed to the quadrature, the limits, break points, epsabs, the result "
             "I + F(x) L(x) and the empty-domain exit. Part B: the real ESF.compute_local + Combiner + channel classes with "
             "conv.convolution recorded: every operator entry equals sum_kernels w_p * chi * conv_j(rsl_o, chi) (errors with "
             "|w_p|) and chi equals the published convolution point (x, x(1+m2/Q2), x(1+sqrt(1+4m2/Q2))/2). Holds for every "
             "coefficient function and basis function at once, which no sampled run can show."
             " Assembly cells with the REAL eko interpolator (concrete grids) check that every basis function is handed to the convolution for x anywhere in the grid; claims about quadrature limits are replayed by recording the real call.",
        note=TRUST + "; QUADPACK and eko's polynomials are replaced by their contracts (quadrature accuracy outside); scale "
             "variations switched off here (C05).",
        technique="symbolic execution of conv.convolution/compute_local with uninterpreted integrands (z3 QF_UFNRA) + path exploration",
        design="§4 C01",
    ),
    "C09": dict(
        text="Every heavy neutral-current channel class x order (18 classes found by introspection) is built through its real "
             "constructor on symbolic x, Q2, m2 and explored path by path with LeProHQ/adani/tabulated coefficients as "
             "unconstrained atoms; z3 proves on every path that a non-empty coefficient is returned only for Q2(1-x)/x > 4m2 and "
             "a non-literal-zero integrand value only for Q2(1-z)/z > 4m2 (boundary included); CC convolution point == "
             "x(1+m2/Q2); conv.convolution returns exactly (0,0) without touching the integrand for a point >= 1-eps; and, through the real "
             "Combiner with three symbolic masses, every heavy/intrinsic/asymptotic kernel of a heavy component carries the mass of its own "
             "flavour (the threshold is the one of the right quark)."
             " The guard is also checked where the result is assembled: through the real ESF.compute_local (quadrature recorded) every RSL that is actually convolved for a heavy NC channel implies W^2 > 4 m^2 of that kernel's own quark.",
        note=TRUST + "; external libraries are uninterpreted, so only yadism's own guards can produce the zeros.",
        technique="symbolic execution of the real heavy-quark classes (z3 proxies, path exploration) + z3 NRA implication queries",
        design="§4 C09",
    ),
    "C10": dict(
        text="The real ESFTMC_{F2,FL,F3,g1} classes (constructors, get_result, _convolve_FX, the njit TMC kernels) run on symbolic "
             "x in (0,1], Q2>0, M^2>=0 (parametrised by rho>=1) and symbolic grid nodes, with the uncorrected structure "
             "functions as uninterpreted functions and the basis convolutions as formal numbers; all feasible paths (which "
             "basis functions lie below xi, xi below the grid) are explored and on each z3 proves values and propagated errors "
             "equal to the published combination (Schienbein et al., Kretzer-Reno, Bluemlein-Tkabladze): prefactors, which "
             "observable is integrated, which integral (real kernel run at symbolic z, matched by solver-proved equality), the "
             "Nachtmann point; M=0 returns the uncorrected function exactly; ValueError exactly when xi(x) is below the grid."
             " A second get_result() on the same (cached) TMC object must return the same tensors."
             " The TMC mode and the target mass reach the configuration unchanged through the real Runner.",
        note=TRUST + "; approximate mode oracle: Schienbein closed forms for F2/F3, integrand frozen at the bottom end for FL/g1 "
             "(docs); accuracy of the j-sum as an interpolation of the integral is outside.",
        technique="symbolic execution of the real TMC classes with uninterpreted structure functions + z3 QF_UFNRA equality",
        design="§4 C10",
    ),
    "C11": dict(
        text="The real CrossSection.load/get_esf, EvaluatedCrossSection.get_result, xs_coeffs_(un)polarized and the ESFResult "
             "linear algebra run on symbolic x, y, Q2, M_h^2, M_W^2, G_F and formal structure-function tensors; z3 proves every "
             "entry (values and errors, every order key incl. scale-variation keys) equal to N (y+ F2 - yL FL +- y- xF3) with "
             "the documented N, y+-, yL for all ten kinds and four projectiles, plus the wiring (same flavour, same kinematics, "
             "TMC-aware request, F3 skipped only where its coefficient is zero); the same claim is repeated through the REAL "
             "Runner.__init__ with symbolic MW, MP, GF in the theory card (the card's values must reach the normalisation)."
             " The probed point is preceded by another point of the same y bin and the results are requested twice (the formula holds on every evaluation).",
        note=TRUST + "; XSFPFCC normalisation oracle follows the standard derivation (4 pi), docs print 8 pi (recorded tension).",
        technique="symbolic execution of the real cross-section code (z3 proxies, forked paths) + z3 NRA equality",
        design="§4 C11",
    ),
    "C07": dict(
        text="The real Combiner (collect, light/heavylight/heavy components, every kernel generator, get_weight/get_fl11_weight "
             "with nc_pos_charge) runs on symbolic electroweak parameters for each member of a partition; every observable "
             "becomes a formal linear form (kernel identity x parton -> weight) and z3 proves total = light + massive flavours "
             "(FFNS/FFN0), total = light (ZM-VFNS), full = massless + massive (FONLL), sum over the six quarks of the "
             "coupling-restricted forms = unrestricted = 'all', for all parameter values over the lattice kind x process x "
             "projectile x scheme x nf x order. Tests never compare two runs; here any branch edit that breaks a partition "
             "is a sat model replayed on floats."
             " The FONLL identity full = massless + massive is proved for every flavour (total, light, charm, bottom, top).",
        note=TRUST + "; identities are on kernel lists, numerical equality of separately convolved runs follows from linearity "
             "(C01); the heavy sum runs over flavours massive in the scheme, massless ones are checked for containment in light.",
        technique="symbolic execution of the real Combiner (z3 proxies) + z3 equality of formal linear forms",
        design="§4 C07",
    ),
    "C08": dict(
        text="PARTIAL (charged-current channels only). The real heavy CC quark and gluon classes of F2, FL, F3 (Gluck-Kretzer-Reya closed forms, LO and NLO) "
             "run on symbolic z, x, Q2 and a symbolic mass; under the hypotheses m2 = 0 and ln(1-lambda) = -L (the collinear logarithm kept as a free real, "
             "linked to the L = ln(Q2/m2) of the asymptotic classes) z3 proves regular+singular and local parts equal to those of asy.AsyQuark/AsyGluon for "
             "ALL z, x, Q2, L, and that no denominator of the compared terms vanishes at m2 = 0 (continuity of everything but the formal logarithm): massive "
             "minus asymptotic tends to zero with all logarithms retained. No finite set of (x, Q2/m2) samples shows a limit. Couplings clause (all processes, also NC): "
             "through the real Combiner with symbolic electroweak parameters, for every heavy-quark channel family (quark-initiated incl. the 'missing' O(a_s^2) "
             "term, gluon, singlet; heavy-quark-initiated: asymptotic -> massive only) the parton-weight vectors of the FFN0 kernels are those of the FFNS kernels "
             "they replace, for all parameter values. NOT claimed for the coefficient functions themselves: neutral-current heavy "
             "channels (LeProHQ/adani/tabulated grids are external and uninterpreted), intrinsic and 'missing' channels, NNLO, the power of the suppression, "
             "numerical size at finite Q2/m2.",
        note=TRUST + "; candidates are replayed on floats at Q2/m2 = 1e4, 1e6, 1e8; a residual of pure float-constant noise <= 1e-9 is forgiven.",
        technique="symbolic execution of the real heavy/asy CC classes (z3 proxies, formal collinear logarithm) + z3 NRA validity queries under the limit hypotheses",
        design="§4 C08 (as built: §8.5)",
    ),
    "C12": dict(
        text="Combiner.apply_isospin runs on kernels with symbolic weights for all 16 up/down key patterns and z3 proves "
             "sum_p w'_p f_p = sum_p w_p f'_p for ALL real Z, A != 0, weights and formal PDFs; the real Combiner for a symbolic "
             "target is proved equal to the oracle-rotated proton run on the configuration lattice; the named-target table is "
             "compared with the documented (Z,A), unknown names must raise ValueError."
             " Explicit {Z, A} targets (non-integer values) must pass through update_target unchanged."
             " Cells with independent PTODIS and PTO(evolution) cover asymptotic towers of every length; the rotation itself runs under the explorer (shortcuts and tolerances on Z, A, weights are paths); explicit Z = 0 targets included.",
        note=TRUST + "; named-target table is a finite concrete comparison, not symbolic.",
        technique="symbolic execution of apply_isospin/Combiner (z3 proxies) + z3 NRA equality with the rotation oracle",
        design="§4 C12",
    ),
    "C13": dict(
        text="Pairs of symbolic runs of the real Combiner/weight code; z3 proves for all electroweak parameters: NC with the Z "
             "terms switched off == EM (and eta_gammaZ ~ 1/(MZ2+Q2)); (e+,P) == (e-,-P); nubar/e- CC == nu/e+ CC on "
             "charge-conjugated partons with a sign flip for parity-violating kinds, arbitrary CKM; invariance of massless "
             "NC/EM kernel lists under exchange of equal-charge active quarks."
             " The decoupling and positron relations are also proved in the massive schemes (FFNS, FFN0, FONLL-FFNS).",
        note=TRUST + "; decoupling cells replace propagator_factor by its contract (1,E,E^2) with E=0; relations are on kernel "
             "lists (linearity gives the convolved statement).",
        technique="paired symbolic execution of the real Combiner (z3 proxies) + z3 NRA equality of linear forms",
        design="§4 C13",
    ),
    "C02": dict(
        text="The real CouplingConstants, CKM2Matrix, nc_weights/cc_weights(_even/_odd), heavy nc_weights and the kernel "
             "generators (light, heavy-light, heavy CC) are executed on symbolic electroweak parameters; z3 proves for ALL "
             "Q2>0, sin2theta in (0,1), MZ, MW, polarisation in [-1,1], propagator correction, nine CKM^2>=0 that every "
             "weight and the LO operator weight per parton (sum over kernels of weight x LO delta x chi/x) equals an "
             "independent PDG/CKM oracle; the discrete lattice projectile x process x nf x kind x CKM mask is enumerated. "
             "Unit tests pin a few numbers; here a sign/charge/propagator/CKM slip anywhere in parameter space is a sat model."
             " The LO operator in the massive-scheme limit FFN0 (through the real Combiner; light quarks plus the tagged heavy quark as incoming partons) is compared with the same parton model."
             " The same LO limit is checked for the FONLL building block FONLL-FFN0.",
        note=TRUST + "; oracle yv/refs/ew.py written from PDG (tree-level eta_gammaZ) and docs/theory/fns.rst; for neutrino NC "
             "beams both helicity sign conventions are accepted; heavy-CC FL LO prefactor is outside.",
        technique="symbolic execution of the real weight code (z3 proxies) + z3 NRA equality with an independent PDG oracle",
        design="§4 C02",
    ),
    "C03": dict(
        text="Bounded symbolic execution of every RSL producer (all PartonicChannel classes of light/heavy/asy/intrinsic x orders "
             "0..3 x nf, RSL.from_distr_coeffs/from_delta with symbolic coefficients, every splitting label) on z3-backed "
             "proxies with forward-mode derivatives; z3 decides d loc/dz + sing == 0 for ALL z in (0,1) and all positive "
             "masses (exact for analytic families, within tau=1e-4 of the envelope for the transcribed NNLO/N3LO fits), the "
             "structural clauses and the definedness obligations (denominators, log/sqrt arguments) on every feasible path. "
             "A sampled test can only see loc(0) and a few z; the solver sees the whole z-dependence."
             " Every part is re-evaluated at the same argument (after another point in between) and must return the same term; the singular and local parts of the x-space fits are also compared coefficient by coefficient in powers of ln(1-x) (formal expansion, 1e-4 relative per power).",
        note=TRUST + "; Li2/log/sqrt as atoms with exact derivative rules; LeProHQ/adani as uninterpreted functions; "
             "asy g1/F3 NLL/NNLL non-singlet local parts (complex Li2 / Nielsen) are not encodable and listed in the evidence.",
        technique="symbolic execution of the real Python kernels (z3 proxies + forward-mode AD) + z3 NRA validity queries",
        design="§4 C03",
    ),
}

NOT_APPLICABLE = {
    "C19": "convergence of an interpolation/quadrature scheme under grid refinement: lives in eko's polynomials and QUADPACK, "
           "no finite algebraic core in yadism to hand to an SMT solver",
}

# clauses added in rounds 9/10 (appended to the texts above)
EXTRA = {
    "C03": " Float constants q pi^k are read with one rational for pi, so analytic families close as exact identities; no function is excluded any more (the complex-trilogarithm local part of the NNLL asymptotic non-singlet is decided exactly).",
    "C09": " Through the real compute_local the kernel list and the coefficient functions handed to the convolution correspond one to one, and heavy CC channels (also the LO delta) are convolved at x(1+m2/Q2).",
    "C10": " The probed TMC point is preceded by a point at larger x on the same parent object (live cache dict).",
    "C11": " The beam polarisation is symbolic; numpy of exs.py runs through the shim (tolerance tests are paths); variants with an earlier point at y = 0 exactly.",
    "C13": " The exchange of massless equal-charge quarks is also proved in FFN0 (found and led to the repair of the FFN0 'missing'-term defect).",
    "C14": " The compute_raw memo clause uses formal operator tokens that survive arithmetic, real convolutions decide when the structural claim fails; the shared-objects clause includes an earlier run on the same target dict object edited in place.",
    "C15": " Token equalities are decided by z3 (one validity query per round trip). History: another output written to and read from the same location before; the object dumped once, edited in place, dumped again.",
    "C16": " Cross sections on the strata where a coefficient of the documented combination is singular: z3 finds where a denominator can vanish inside the admissible domain, the real code runs on plain floats at solver-chosen points there.",
    "C17": " apply_pdf runs under the path explorer (shortcuts for xiR = 1 / xiF = 1 are paths).",
    "C18": " Frozen globals: module-level names read by kernels are compile-time constants of the machine code; code of the tree that rebinds one is reported with a machine-code replay (static analysis, not a solver query).",
    "C20": " The output's cards share no mutable container with the caller's cards.",
}

PENDING = {}


def main():
    props = [json.loads(l) for l in open(os.path.join(HERE, "properties.jsonl"))]
    checks = []
    for p in props:
        pid = p["id"]
        if pid not in CHECKS:
            continue
        c = CHECKS[pid]
        checks.append({
            "property_id": pid,
            "quick_cmd": f"./vcheck {pid} --tier quick",
            "thorough_cmd": f"./vcheck {pid} --tier thorough",
            "evidence_file": f"evidence/{pid}.json",
            "replay_cmd_template": f"./vcheck {pid} --replay {{path}}",
            "engine": c.get("engine", "symex"),
            "level_claimed": {"category": "other", "text": c["text"] + EXTRA.get(pid, ""), "design_ref": c["design"]},
            "level_note": c["note"],
            "technique": c["technique"],
        })
    na = []
    for p in props:
        pid = p["id"]
        if pid in CHECKS:
            continue
        reason = NOT_APPLICABLE.get(pid) or PENDING.get(pid) or "check not built yet in this round (see DESIGN.md for the plan)"
        na.append({"property_id": pid, "reason": reason})
    man = {
        "version": 1,
        "setup_cmd": "./setup.sh",
        "hooks": {
            "guard": "YADISM_VERIF",
            "enable": "no source hooks: all instrumentation is done from the harness side by rebinding module attributes "
                      "at run time (checks export YADISM_VERIF=1, nothing in /repo reads it)",
            "baseline_off_cmd": "cd /repo && /venv/bin/python -m pytest -ra -q -p no:cacheprovider --timeout=900 "
                                "--continue-on-collection-errors",
            "source_commits": [],
            "add_only": True,
        },
        "engines": [
            {"name": "symex", "path": "yv/engine", "serves_properties": sorted(CHECKS),
             "kind_free_text": "own symbolic executor: z3-backed number proxies run through the real yadism Python code "
                               "(JIT off), path exploration by decision replay, atoms for transcendental/external functions, "
                               "z3 NRA queries, float replay of counterexamples"},
            {"name": "crosshair", "path": "yv/ch", "serves_properties": [p for p in ("C06", "C16", "C20") if p in CHECKS],
             "kind_free_text": "CrossHair 0.0.110 on the NumPy-free control logic (input/compatibility.py, observable_name.py)"},
        ],
        "checks": checks,
        "not_applicable": na,
        "notes": "All checks: exit 0 held / exit 1 + VIOLATION line / exit 2 inconclusive (harness error, never success). "
                 "known_findings.json lists recorded and repaired defects.",
    }
    with open(os.path.join(HERE, "MANIFEST.json"), "w") as f:
        json.dump(man, f, indent=1)
    print(f"{len(checks)} checks, {len(na)} not claimed")


if __name__ == "__main__":
    main()
