"""CrossHair harness (Engine B) for C20: compatibility.update is pure and idempotent.

Symbolic: FNS/FONLLParts/target spelling as enum indices, NfFF/PTO/PTODIS/QED as unbounded ints, presence of every
optional key as bools.  Floats stay concrete (symbolic floats inside dict equality do not confirm in reasonable time).
"""
import copy

from yv.ch._load import compatibility

FNS = ["ZM-VFNS", "FFNS", "FFN0", "FONLL-FFNS", "FONLL-FFN0"]
TARGETS = ["proton", "neutron", "isoscalar", "iron", "lead", "neon", "marble"]
PARTS = ["full", "massless", "massive"]


def _cards(fns_i, nf, pto, has_ptodis, ptodis_none, ptodis, has_parts, parts_none, parts_i, has_rsv, rsv, has_fsv, fsv, has_aqed,
           has_qed, qed, tgt_i, tgt_dict):
    th = {"FNS": FNS[fns_i], "NfFF": nf, "PTO": pto, "kcThr": 1.25, "kbThr": 1.0, "ktThr": 1.0, "mc": 1.51}
    if has_ptodis:
        th["PTODIS"] = None if ptodis_none else ptodis
    if has_parts:
        th["FONLLParts"] = None if parts_none else PARTS[parts_i]
    if has_rsv:
        th["RenScaleVar"] = rsv
    if has_fsv:
        th["FactScaleVar"] = fsv
    if has_aqed:
        th["alphaqed"] = 0.0075
    if has_qed:
        th["QED"] = qed
    kin = [{"x": 0.1, "Q2": 10.0}]
    # observables in every admissible spelling: full name, bare kind (= kind_total), a cross section
    ob = {"TargetDIS": {"Z": 26.0, "A": 56.0} if tgt_dict else TARGETS[tgt_i],
          "observables": {"F2_total": kin, "FL": [{"x": 0.2, "Q2": 5.0}], "XSHERANC": [{"x": 0.2, "Q2": 5.0, "y": 0.5}]},
          "interpolation_xgrid": [0.1, 1.0]}
    return th, ob


def _pure_and_idempotent(th, ob):
    th0, ob0 = copy.deepcopy(th), copy.deepcopy(ob)
    kin = ob["observables"]["F2_total"]
    tgt_obj = ob["TargetDIS"]
    nt, no = compatibility.update(th, ob)
    # the caller's cards are untouched (values) and their nested containers are the same objects
    if th != th0 or ob != ob0:
        return None
    if ob["observables"]["F2_total"] is not kin or ob["TargetDIS"] is not tgt_obj:
        return None
    if nt is th or no is ob:
        return None
    # upgrading is idempotent and does not touch its own input either
    nt_copy, no_copy = copy.deepcopy(nt), copy.deepcopy(no)
    nt2, no2 = compatibility.update(nt, no)
    if not (nt2 == nt_copy and no2 == no_copy and nt == nt_copy and no == no_copy):
        return None
    return nt, no


def check_group_fns(fns_i: int, nf: int, pto: int, has_ptodis: bool, ptodis_none: bool, ptodis: int) -> bool:
    """
    pre: 0 <= fns_i < 5
    post: _
    """
    th, ob = _cards(fns_i, nf, pto, has_ptodis, ptodis_none, ptodis, False, False, 0, False, False, False, False, False, False, 0, 0, False)
    r = _pure_and_idempotent(th, ob)
    if r is None:
        return False
    return r[0]["PTODIS"] == (ptodis if (has_ptodis and not ptodis_none) else pto)


def check_group_parts(fns_i: int, nf: int, has_parts: bool, parts_none: bool, parts_i: int) -> bool:
    """
    pre: 0 <= fns_i < 5 and 0 <= parts_i < 3
    post: _
    """
    th, ob = _cards(fns_i, nf, 1, False, False, 0, has_parts, parts_none, parts_i, False, False, False, False, False, False, 0, 0, False)
    r = _pure_and_idempotent(th, ob)
    if r is None:
        return False
    return r[0]["FONLLParts"] == (PARTS[parts_i] if (has_parts and not parts_none) else "full")


def check_group_sv(has_rsv: bool, rsv: bool, has_fsv: bool, fsv: bool, fns_i: int) -> bool:
    """
    pre: 0 <= fns_i < 5
    post: _
    """
    th, ob = _cards(fns_i, 4, 1, False, False, 0, False, False, 0, has_rsv, rsv, has_fsv, fsv, False, False, 0, 0, False)
    r = _pure_and_idempotent(th, ob)
    if r is None:
        return False
    return r[0]["RenScaleVar"] == (rsv if has_rsv else True) and r[0]["FactScaleVar"] == (fsv if has_fsv else True)


def check_group_qed(has_aqed: bool, has_qed: bool, qed: int, pto: int) -> bool:
    """
    pre: True
    post: _
    """
    th, ob = _cards(0, 4, pto, False, False, 0, False, False, 0, False, False, False, False, has_aqed, has_qed, qed, 0, False)
    r = _pure_and_idempotent(th, ob)
    if r is None:
        return False
    nt = r[0]
    if has_aqed and (nt.get("alphaem") != 0.0075 or "alphaqed" in nt):
        return False
    if has_qed and (nt.get("order") != (pto + 1, qed) or "QED" in nt):
        return False
    return True


def check_group_target(tgt_i: int, tgt_dict: bool, fns_i: int) -> bool:
    """
    pre: 0 <= tgt_i < 7 and 0 <= fns_i < 5
    post: _
    """
    th, ob = _cards(fns_i, 4, 1, False, False, 0, False, False, 0, False, False, False, False, False, False, 0, tgt_i, tgt_dict)
    r = _pure_and_idempotent(th, ob)
    if r is None:
        return False
    no = r[1]
    return isinstance(no["TargetDIS"], dict) and set(no["TargetDIS"]) == {"Z", "A"}


def check_unknown_target(s: str) -> bool:
    """
    pre: s != "proton" and s != "neutron" and s != "isoscalar" and s != "iron" and s != "lead" and s != "neon" and s != "marble"
    post: _
    """
    ob = {"TargetDIS": s}
    try:
        compatibility.update_target(ob)
    except ValueError:
        return ob == {"TargetDIS": s}
    return False
