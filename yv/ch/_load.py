"""Load NumPy-only yadism modules stand-alone from /repo's working tree (importing the yadism package pulls in
numba/eko, whose import-time subprocess calls CrossHair's audit wall rejects).

The modules are imported as sub-modules of a synthetic package `yv_yadism` whose __path__ is the source directory but whose
__init__ is NOT executed, so relative imports between NumPy-only siblings (`from ..observable_name import ...`) resolve."""
import importlib
import os
import sys
import types

REPO_SRC = os.environ.get("YADISM_SRC", "/repo/src/yadism")


def _pkg(name, path):
    if name not in sys.modules:
        m = types.ModuleType(name)
        m.__path__ = [path]
        m.__package__ = name
        sys.modules[name] = m
    return sys.modules[name]


_pkg("yv_yadism", REPO_SRC)
_pkg("yv_yadism.input", os.path.join(REPO_SRC, "input"))


def load(relpath, name=None):
    dotted = "yv_yadism." + relpath[:-3].replace("/", ".")
    return importlib.import_module(dotted)


compatibility = load("input/compatibility.py")
observable_name = load("observable_name.py")
