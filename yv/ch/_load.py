"""Load NumPy-only yadism modules stand-alone from /repo's working tree (importing the yadism package pulls in
numba/eko, whose import-time subprocess calls CrossHair's audit wall rejects)."""
import importlib.util
import os

REPO_SRC = os.environ.get("YADISM_SRC", "/repo/src/yadism")


def load(relpath, name):
    spec = importlib.util.spec_from_file_location(name, os.path.join(REPO_SRC, relpath))
    mod = importlib.util.module_from_spec(spec)
    spec.loader.exec_module(mod)
    return mod


compatibility = load("input/compatibility.py", "yv_compatibility")
observable_name = load("observable_name.py", "yv_observable_name")
