"""CrossHair harness (Engine B) for C16: ObservableName on arbitrary strings either builds or raises ValueError."""
from yv.ch._load import observable_name as on


def check_is_valid_total(s: str) -> bool:
    """
    pre: len(s) <= 4
    post: _
    """
    # is_valid must answer for every string (never an internal error)
    try:
        r = on.ObservableName.is_valid(s)
    except Exception:  # noqa
        return False
    if not r:
        return True
    o = on.ObservableName(s)
    # a valid name decomposes into a known kind and a known flavour and round-trips
    return o.kind in on.kinds and o.flavor in on.flavors and (o.name == s or (o.name == s + "_total" and "_" not in s))


def check_constructor_rejects_cleanly(s: str) -> bool:
    """
    pre: len(s) <= 4
    post: _
    """
    try:
        on.ObservableName(s)
    except ValueError:
        return True
    except Exception:  # noqa
        return False
    return True
