"""CrossHair harness (Engine B) for C06: compatibility.update_fns rewrites thresholds by scheme.

NfFF is an unbounded symbolic int; scheme an enum index.  Post-conditions re-state the documented meaning:
FFNS/FFN0: flavours 4..NfFF are massless with threshold 0 (always active), the others massive with threshold
inf (never active) => exactly clamp(NfFF-3,0,3) thresholds at 0 and nf_default == NfFF (for 3<=NfFF<=6) at every Q2;
FONLL: as above but exactly flavour NfFF+1 is the single massive one; ZM-VFNS: thresholds untouched, all massless.
"""
import math

from yv.ch._load import compatibility

FNS = ["ZM-VFNS", "FFNS", "FFN0", "FONLL-FFNS", "FONLL-FFN0"]


def check_fns(fns_i: int, nf: int, stale_c: bool = False, stale_b: bool = False, stale_t: bool = False, stale_val: bool = False) -> bool:
    """
    pre: 0 <= fns_i < 5
    post: _
    """
    th = {"FNS": FNS[fns_i], "NfFF": nf, "PTO": 1, "kcThr": 1.25, "kbThr": 1.5, "ktThr": 2.0}
    # a card may still carry ZMc/ZMb/ZMt from an earlier life (copied from a card of another scheme, upgraded twice):
    # the scheme decides, not the left-over value
    for fl, stale in (("c", stale_c), ("b", stale_b), ("t", stale_t)):
        if stale:
            th[f"ZM{fl}"] = stale_val
    compatibility.update_fns(th)
    ks = [th[f"k{fl}Thr"] for fl in "cbt"]
    zm = [th[f"ZM{fl}"] for fl in "cbt"]
    if fns_i == 0:
        return ks == [1.25, 1.5, 2.0] and zm == [True, True, True]
    zeros = sum(1 for k in ks if k == 0.0)
    infs = sum(1 for k in ks if k == math.inf)
    want0 = min(max(nf - 3, 0), 3)
    if zeros != want0 or zeros + infs != 3:
        return False
    # zeros first (monotone walls), so the count of thresholds <= any Q2 > 0 is exactly `zeros`
    if ks != [0.0] * zeros + [math.inf] * infs:
        return False
    if fns_i in (1, 2):
        # massive exactly the flavours above NfFF
        return zm == [k + 4 <= nf for k in range(3)]
    # FONLL: exactly one massive flavour NfFF+1 (if it exists)
    return zm == [not (k + 4 == nf + 1) for k in range(3)]


def check_unknown_scheme(s: str) -> bool:
    """
    pre: s != "ZM-VFNS" and s != "FFNS" and s != "FFN0" and s != "FONLL-FFNS" and s != "FONLL-FFN0"
    post: _
    """
    th = {"FNS": s, "NfFF": 4, "PTO": 1}
    try:
        compatibility.update_fns(th)
    except ValueError:
        return True
    return False
