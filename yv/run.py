"""Driver: python -m yv.run C03 [--tier quick|thorough] [--replay file]"""
import argparse
import faulthandler
import importlib
import os
import sys

os.environ.setdefault("NUMBA_DISABLE_JIT", "1")
faulthandler.enable()


def main():
    ap = argparse.ArgumentParser()
    ap.add_argument("pid")
    ap.add_argument("--tier", default=os.environ.get("VERIF_TIER", "quick"))
    ap.add_argument("--replay", default=None)
    ap.add_argument("--only", default=None, help="developer aid: run only sections matching this")
    a = ap.parse_args()
    tier = a.tier if a.tier in ("quick", "thorough") else "quick"
    seed = int(os.environ.get("VERIF_SEED", "0") or 0)
    mod = importlib.import_module(f"yv.props.{a.pid.lower()}")
    from yv.engine import harness

    if a.replay:
        sys.exit(harness.run_replay(a.replay, mod.REPLAYERS))
    chk = harness.Check(a.pid.upper(), tier, seed, getattr(mod, "REPLAYERS", {}))
    try:
        code = mod.run(chk, only=a.only)
    except harness.StopEarly as e:
        code = chk.finish(explanation=f"run stopped early: {e}", rule="see the check's normal evidence for the rule")
    except Exception:  # noqa
        import traceback

        traceback.print_exc()
        print(f"HARNESS-ERROR property={a.pid}")
        sys.exit(2)
    sys.exit(code)


if __name__ == "__main__":
    main()
