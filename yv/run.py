"""Driver: python -m yv.run C03 [--tier quick|thorough] [--replay file] [--jobs N]

With --jobs N > 1 the check is split into N shards (cells are partitioned by a hash of their key), run as parallel
subprocesses and the shard evidences are merged into evidence/<ID>.json; the exit code is 1 if any shard found a
violation, else 2 if any shard was inconclusive, else 0.
"""
import argparse
import faulthandler
import importlib
import json
import os
import subprocess
import sys
import tempfile
import time

os.environ.setdefault("NUMBA_DISABLE_JIT", "1")
faulthandler.enable()

DEFAULT_JOBS = {"quick": {"C03": 4, "C07": 4, "C20": 4, "C09": 4, "C12": 2, "C13": 2, "C16": 2}, "thorough": 8}


def merge(dst, src):
    """merge two coverage-like dicts: numbers add, lists concatenate (bounded), dicts recurse, strings keep the first"""
    for k, v in src.items():
        if k not in dst:
            dst[k] = v
        elif isinstance(v, bool) or isinstance(dst[k], bool):
            dst[k] = bool(dst[k]) and bool(v) if k == "exhaustive" else (dst[k] or v)
        elif isinstance(v, (int, float)) and isinstance(dst[k], (int, float)):
            dst[k] = dst[k] + v
        elif isinstance(v, list) and isinstance(dst[k], list):
            dst[k] = (dst[k] + [x for x in v if x not in dst[k]])[:40]
        elif isinstance(v, dict) and isinstance(dst[k], dict):
            merge(dst[k], v)
    return dst


def run_sharded(pid, tier, jobs, only):
    verif = os.path.dirname(os.path.dirname(os.path.abspath(__file__)))
    evdir = os.environ.get("VERIF_EVIDENCE_DIR") or os.path.join(verif, "evidence")
    t0 = time.time()
    tmp = tempfile.mkdtemp(prefix=f"yv_{pid}_", dir="/var/tmp")
    base_seed = int(os.environ.get("VERIF_SEED", "0") or 0)
    # thorough tier: the whole check is repeated for three witness seeds (witness-guided exploration and the hash-selected
    # sub-lattices depend on it); quick tier: the given seed only
    seeds = [base_seed] if tier != "thorough" or only else [base_seed, base_seed + 1, base_seed + 2]
    codes, evs, hung = [], [], 0
    for sd in seeds:
        c_, e_, h_ = _run_seed(pid, tier, jobs, only, verif, os.path.join(tmp, f"seed{sd}"), sd)
        codes += c_
        evs += e_
        hung += h_
    return _finish(pid, tier, jobs, evdir, tmp, t0, codes, evs, hung, seeds)


def _run_seed(pid, tier, jobs, only, verif, tmp, sd):
    procs = []

    def spawn(i, retry=0):
        env = dict(os.environ, VERIF_SHARD=f"{i}/{jobs}", VERIF_EVIDENCE_DIR=os.path.join(tmp, f"s{i}"), VERIF_TIER=tier, VERIF_SEED=str(sd))
        if retry:
            env["VERIF_Z3_SEED"] = str(retry)
        cmd = [sys.executable, "-m", "yv.run", pid, "--tier", tier, "--jobs", "1"] + (["--only", only] if only else [])
        return subprocess.Popen(cmd, env=env, stdout=subprocess.PIPE, stderr=subprocess.STDOUT, text=True, cwd=verif)

    for i in range(jobs):
        procs.append(spawn(i))
    codes, evs, hung = [], [], 0
    for i, p in enumerate(procs):
        out, _ = p.communicate()
        if p.returncode == 75:
            # the solver ignored its timeout (engine/watchdog.py): one more attempt with another solver seed
            hung += 1
            print(f"[{pid}] shard {i}: solver call exceeded its budget, shard is re-run once", flush=True)
            p = spawn(i, retry=1)
            out, _ = p.communicate()
        codes.append(p.returncode)
        lines = out.splitlines()
        for ln in lines:
            if ln.startswith(f"[{pid}]"):
                continue
            print(ln, flush=True)
        try:
            evs.append(json.load(open(os.path.join(tmp, f"s{i}", f"{pid}.json"))))
        except Exception:  # noqa
            pass
    return codes, evs, hung


def _finish(pid, tier, jobs, evdir, tmp, t0, codes, evs, hung, seeds):
    import shutil

    shutil.rmtree(tmp, ignore_errors=True)
    if not evs:
        print(f"HARNESS-ERROR property={pid} (no shard wrote evidence; exit codes {codes})")
        return 2
    ev = evs[0]
    for other in evs[1:]:
        merge(ev["coverage"], other["coverage"])
        ev["violations"] = ev.get("violations", 0) + other.get("violations", 0)
        for a in other.get("assumptions", []):
            if a not in ev["assumptions"]:
                ev["assumptions"].append(a)
    ev["coverage"]["samples"] = ev["coverage"].get("samples", [])[:10]
    ev["coverage"]["shards"] = {"n": jobs, "exit_codes": codes, "rule": "cells partitioned by crc32(key) % n; one-off parts in shard 0",
                                "shards_rerun_after_solver_hang": hung, "witness_seeds": seeds}
    ev["wall_s"] = round(time.time() - t0, 2)
    os.makedirs(evdir, exist_ok=True)
    with open(os.path.join(evdir, f"{pid}.json"), "w") as f:
        json.dump(ev, f, indent=1, default=str)
    c = ev["coverage"]
    print(f"[{pid}] tier={tier} shards={jobs} obligations={c.get('obligations')} discharged={c.get('discharged')} paths={c.get('paths')} "
          f"queries={c.get('solver', {}).get('queries')}+{c.get('path_exploration', {}).get('feasibility_queries')} wall_s={ev['wall_s']} "
          f"violations={ev['violations']} inconclusive={len(c.get('inconclusive', []))}", flush=True)
    if any(x == 1 for x in codes):
        return 1
    if any(x != 0 for x in codes):
        return 2
    return 0


def main():
    ap = argparse.ArgumentParser()
    ap.add_argument("pid")
    ap.add_argument("--tier", default=os.environ.get("VERIF_TIER", "quick"))
    ap.add_argument("--replay", default=None)
    ap.add_argument("--only", default=None, help="developer aid: run only sections matching this")
    ap.add_argument("--jobs", type=int, default=None)
    a = ap.parse_args()
    tier = a.tier if a.tier in ("quick", "thorough") else "quick"
    seed = int(os.environ.get("VERIF_SEED", "0") or 0)
    pid = a.pid.upper()
    mod = importlib.import_module(f"yv.props.{pid.lower()}")
    from yv.engine import harness

    if a.replay:
        sys.exit(harness.run_replay(a.replay, mod.REPLAYERS))
    jobs = a.jobs
    if jobs is None and "VERIF_SHARD" not in os.environ:
        d = DEFAULT_JOBS[tier]
        jobs = d if isinstance(d, int) else d.get(pid, 1)
        if not getattr(mod, "SHARDABLE", False):
            jobs = 1
        jobs = max(1, min(jobs, (os.cpu_count() or 2) // 2))
    if "VERIF_SHARD" not in os.environ:
        # always through child processes (also for one shard): a child whose solver call ignores its timeout is re-run by the parent
        sys.exit(run_sharded(pid, tier, max(1, jobs or 1), a.only))
    if os.environ.get("VERIF_Z3_SEED"):
        import z3

        for k in ("smt.random_seed", "sat.random_seed", "nlsat.seed"):
            z3.set_param(k, int(os.environ["VERIF_Z3_SEED"]))
    chk = harness.Check(pid, tier, seed, getattr(mod, "REPLAYERS", {}))
    import gc

    gc.disable()  # cyclic garbage is collected by the main thread only, between cells (engine/real.py: main_thread_gc)
    try:
        code = mod.run(chk, only=a.only)
    except harness.StopEarly as e:
        code = chk.finish(explanation=f"run stopped early: {e}", rule="see the check's normal evidence for the rule")
    except Exception as e:  # noqa
        import traceback

        traceback.print_exc()
        print(f"HARNESS-ERROR property={a.pid}")
        if chk.violations:
            # violations already reported were reproduced on the real code before being printed: they stand (exit 1); the part of the
            # check that could not run is recorded as inconclusive in the evidence
            chk.inconclusive_note(f"harness error after {len(chk.violations)} reported violation(s): {type(e).__name__}: {str(e)[:160]}")
            _leave(chk.finish(explanation="run ended by a harness error after violations had been reported", rule="see the check's normal evidence for the rule"))
        _leave(2)
    _leave(code)


def _leave(code):
    """end a shard process without interpreter finalisation: tearing down millions of z3 AST references one by one at exit was seen to
    keep a finished shard (evidence written, summary printed) spinning for more than 20 minutes"""
    sys.stdout.flush()
    sys.stderr.flush()
    os._exit(int(code))


if __name__ == "__main__":
    main()
