"""Independent electroweak oracle: PDG 'Structure functions' review (as cited in docs/theory/fact.rst)
and the CKM colouring of docs/theory/fns.rst.  Written from the literature, not from yadism's code.

All functions take plain parameters (proxies or numbers) and return the weight with which the
parton density enters the LO structure function divided by x:  F/x = sum_p weight(p) f_p.
"""

from fractions import Fraction as Fr

UP, DOWN = (2, 4, 6), (1, 3, 5)


def quark_couplings(q, s2):
    """electric charge, g_V, g_A of quark flavour q (1=d,2=u,3=s,4=c,5=b,6=t)."""
    if q in UP:
        e, t3 = Fr(2, 3), Fr(1, 2)
    else:
        e, t3 = Fr(-1, 3), Fr(-1, 2)
    return e, t3 - 2 * e * s2, t3


def lepton_couplings(pid, s2):
    """electric charge, g_V, g_A of the *particle* |pid| (11 charged lepton, 12 neutrino)."""
    if abs(pid) == 11:
        e, t3 = -1, Fr(-1, 2)
    else:
        e, t3 = 0, Fr(1, 2)
    return e, t3 - 2 * e * s2, t3


def eta_gamma_z(Q2, MZ2, s2, delta):
    """PDG: eta_gammaZ = (G_F M_Z^2 / (2 sqrt2 pi alpha)) Q^2/(Q^2+M_Z^2); tree level:
    G_F M_Z^2/(2 sqrt2 pi alpha) = 1/(4 sin^2 cos^2).  `delta` is yadism's documented multiplicative
    'propagator correction' 1/(1-delta)."""
    return Q2 / (Q2 + MZ2) / (4 * s2 * (1 - s2)) / (1 - delta)


def helicity_sign(pid):
    """kappa_gammaZ = g_V^e + e*lambda*g_A^e (docs/fact.rst, PDG '+- for e+-'): the sign that multiplies
    lambda is the charge of the beam particle: -1 for e-, +1 for e+."""
    if pid == 11:
        return -1
    if pid == -11:
        return +1
    return None  # neutrinos: PDG gives no polarised formula; see c02 for the two admissible readings


def nc_weight(q, parity_violating, process, pid, Q2, MZ2, s2, pol, delta, sign=None):
    """weight of (q + qbar) [parity conserving] or (q - qbar) [parity violating] for quark flavour q."""
    eq, gvq, gaq = quark_couplings(q, s2)
    el, gvl, gal = lepton_couplings(pid, s2)
    sl = (helicity_sign(pid) if sign is None else sign) * pol
    eta = eta_gamma_z(Q2, MZ2, s2, delta)
    if not parity_violating:
        w_gg = el * el * eq * eq
        if process == "EM":
            return w_gg
        # PDG writes the charged-lepton case e_l=-1: F2 = F2^g - (gV + s*lam*gA) eta F2^gZ + ...;
        # general lepton charge: the interference carries e_l.
        w_gz = 2 * el * (gvl + sl * gal) * eta * eq * gvq
        w_zz = (gvl * gvl + gal * gal + 2 * sl * gvl * gal) * eta * eta * (gvq * gvq + gaq * gaq)
        return w_gg + w_gz + w_zz
    if process == "EM":
        return 0
    w_gz = 2 * el * (gal + sl * gvl) * eta * eq * gaq
    w_zz = (2 * gvl * gal + sl * (gvl * gvl + gal * gal)) * eta * eta * 2 * gvq * gaq
    return w_gz + w_zz


# ---- charged current -------------------------------------------------------------------------

CKM_ROWS = {"u": 0, "c": 1, "t": 2}
CKM_COLS = {"d": 0, "s": 1, "b": 2}
ROW_OF = {2: 0, 4: 1, 6: 2}
COL_OF = {1: 0, 3: 1, 5: 2}


def ckm_block(mask):
    """Set of (row, col) entries associated to the flavours in `mask` (docs/theory/fns.rst colouring):
    light 'dus' -> V_ud, V_us; charm -> V_cd, V_cs; bottom -> V_ub, V_cb; top -> whole t row."""
    blk = set()
    if all(c in mask for c in "dus"):
        blk |= {(0, 0), (0, 1)}
    if "c" in mask:
        blk |= {(1, 0), (1, 1)}
    if "b" in mask:
        blk |= {(0, 2), (1, 2)}
    if "t" in mask:
        blk |= {(2, 0), (2, 1), (2, 2)}
    return blk


def cc_quark_strength(q, mask, V2):
    """2 * sum of |V|^2 over the allowed block entries touching quark flavour q.
    V2: 3x3 nested list of squared CKM elements (rows u,c,t; cols d,s,b)."""
    blk = ckm_block(mask)
    tot = 0
    if q in ROW_OF:
        r = ROW_OF[q]
        for c in range(3):
            if (r, c) in blk:
                tot = tot + V2[r][c]
    else:
        c = COL_OF[q]
        for r in range(3):
            if (r, c) in blk:
                tot = tot + V2[r][c]
    return 2 * tot


def cc_lo_weight(pid_parton, parity_violating, projectile, mask, V2):
    """LO weight of parton `pid_parton` (signed) in F2/FL (pc) or xF3 (pv) for W exchange.

    W+ is exchanged for nu and e+ beams: it is absorbed by d-type quarks and u-type antiquarks;
    W- (nubar, e-) by u-type quarks and d-type antiquarks.  xF3 counts antiquarks with a minus sign."""
    q = abs(pid_parton)
    wplus = projectile in (12, -11)
    dtype = q in DOWN
    quark_hit = dtype if wplus else (not dtype)
    if (pid_parton > 0) != quark_hit:
        return 0
    w = cc_quark_strength(q, mask, V2)
    if parity_violating and pid_parton < 0:
        return -w
    return w
