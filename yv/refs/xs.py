"""Independent oracle for the reduced cross sections: docs/source/theory/intro.rst (+ the unit constant
hbar^2 c^2 = 0.3893793 GeV^2 mb).  sigma = c2*F2 + cL*FL + c3*xF3 with
(c2, cL, c3) = N * (y+, -yL, (-1)^l y-) / (normalising y+ where the docs divide by it)."""

from fractions import Fraction as Fr

# 1 GeV^-2 = 0.3893793 mb = 3.893793e10 * 1e-38 cm^2 = 3.893793e8 pb
GEV2_TO_1E38CM2 = Fr("3.893793e10")
GEV2_TO_PB = Fr("3.893793e8")
PI = Fr("3.141592653589793")  # the float the code multiplies with (exact decimal reading)


def coeffs(kind, y, x, Q2, M2h, Mh, M2W, GF, antilepton):
    """(c_F2, c_FL, c_xF3).  Mh is sqrt(M2h) (passed separately: a sqrt atom in symbolic runs)."""
    yp = 1 + (1 - y) * (1 - y)
    ym = 1 - (1 - y) * (1 - y)
    yL = y * y
    s = -1 if antilepton else 1
    if kind == "F1":  # 2xF1 = F2 - FL
        return (1, -1, 0)
    if kind == "XSHERANC":
        return (1, -yL / yp, s * ym / yp)
    if kind == "XSHERANCAVG":  # average of e+ and e-: the F3 term cancels
        return (1, -yL / yp, 0)
    if kind == "XSHERACC":
        n = Fr(1, 4)
        return (n * yp, -n * yL, n * s * ym)
    if kind == "FW":
        yLfw = yL / (2 * (yL / 2 + (1 - y) - M2h * x * x * y * y / Q2))
        return (1, -yLfw, 0)
    if kind == "XSFPFCC":
        # d2sigma/dx dQ2 = G_F^2/(4 pi x (1+Q2/MW2)^2) [Y+ F2 - y^2 FL +- Y- xF3], in pb
        # (docs/theory/intro.rst prints 8 pi; the standard derivation gives 4 pi -- see DESIGN C11)
        n = GEV2_TO_PB * GF * GF / (4 * PI * x * (1 + Q2 / M2W) * (1 + Q2 / M2W))
        return (n * yp, -n * yL, n * s * ym)
    ypc = yp - 2 * M2h * x * x * y * y / Q2
    if kind == "XSCHORUSCC":
        n = GEV2_TO_1E38CM2 * GF * GF * Mh / (2 * PI * (1 + Q2 / M2W) * (1 + Q2 / M2W))
    elif kind == "XSNUTEVCC":
        n = 100 / (2 * (1 + Q2 / M2W) * (1 + Q2 / M2W))
    elif kind == "XSNUTEVNU":
        n = GEV2_TO_1E38CM2 * GF * GF * Mh / (2 * PI)
    else:
        raise ValueError(kind)
    return (n * ypc, -n * yL, n * s * ym)


def coeffs_polarized(kind):
    if kind == "g5":  # 2xg5 = g4 - gL
        return (1, -1, 0)
    raise ValueError(kind)
