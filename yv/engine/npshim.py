"""A numpy look-alike namespace that lets proxies survive the few calls that would concretise them.

Installed by rebinding a module's `np` attribute for the duration of a run (never edits /repo).
Everything not overridden falls through to the real numpy.
"""

import contextlib
import math

import numpy as _np

from . import real
from .real import S, Dual, SBool, Env


def _has_sym(o):
    if isinstance(o, (S, Dual, SBool, Env)):
        return True
    if isinstance(o, _np.ndarray):
        return o.dtype == object and any(_has_sym(e) for e in o.ravel())
    if isinstance(o, (list, tuple)):
        return any(_has_sym(e) for e in o)
    return False


class NPShim:
    def __init__(self, **over):
        self._over = over

    def __getattr__(self, name):
        if name in self._over:
            return self._over[name]
        return getattr(_np, name)

    # -- constructors --
    @staticmethod
    def array(obj, dtype=None, **kw):
        if _has_sym(obj):
            return _np.array(obj, dtype=object, **kw)
        return _np.array(obj, dtype=dtype, **kw)

    @staticmethod
    def asarray(obj, dtype=None, **kw):
        # numpy's documented meaning: NO copy when the input already is an array of the requested dtype (the caller's object is returned)
        if isinstance(obj, _np.ndarray) and (dtype is None or obj.dtype == _np.dtype(dtype) or (obj.dtype == object and _has_sym(obj))):
            return obj
        return NPShim.array(obj, dtype=dtype, **kw)

    @staticmethod
    def full(shape, fill_value, dtype=None, **kw):
        """work arrays that will receive proxies: object dtype, same fill value"""
        a = _np.empty(shape, dtype=object)
        a.fill(fill_value)
        return a

    # -- elementary functions --
    @staticmethod
    def log(x):
        if isinstance(x, (S, Dual, Env)):
            return x.log()
        if isinstance(x, _np.ndarray) and x.dtype == object:
            return _np.frompyfunc(NPShim.log, 1, 1)(x)
        return _np.log(x)

    @staticmethod
    def sqrt(x):
        if isinstance(x, (S, Dual, Env)):
            return x.sqrt()
        if isinstance(x, _np.ndarray) and x.dtype == object:
            return _np.frompyfunc(NPShim.sqrt, 1, 1)(x)
        return _np.sqrt(x)

    @staticmethod
    def power(x, n):
        if _has_sym(x):
            if isinstance(x, (list, tuple, _np.ndarray)):
                return _np.array([e**n for e in x], dtype=object)
            return x**n
        return _np.power(x, n)

    @staticmethod
    def abs(x):
        # |s| as an If-term: no path split
        if isinstance(x, S):
            return real.abs_s(x)
        if isinstance(x, _np.ndarray) and x.dtype == object:
            return _np.frompyfunc(lambda e: real.abs_s(e) if isinstance(e, S) else abs(e), 1, 1)(x)
        return _np.abs(x)

    @staticmethod
    def sign(x):
        if isinstance(x, S):
            if bool(x > 0):
                return 1
            if bool(x < 0):
                return -1
            return 0
        return _np.sign(x)

    @staticmethod
    def isclose(a, b, rtol=1e-05, atol=1e-08, equal_nan=False):
        """numpy's documented meaning: |a - b| <= atol + rtol * |b| (a symbolic comparison = a decision)"""
        if _has_sym(a) or _has_sym(b):
            if isinstance(a, _np.ndarray) or isinstance(b, _np.ndarray):
                return _np.frompyfunc(lambda x, y: NPShim.isclose(x, y, rtol, atol), 2, 1)(a, b)
            d = a - b
            bound = atol + rtol * (real.abs_s(b) if isinstance(b, S) else abs(b))
            res = (real.abs_s(d) if isinstance(d, S) else abs(d)) <= bound
            ctx = real._CUR[0]
            ex = getattr(ctx, "explorer", None) if ctx is not None else None
            if ex is not None and isinstance(res, SBool):
                # decided here, under the 'single-flip' policy (see Explorer.run)
                with ex.policy("single-flip"):
                    return bool(res)
            return res
        return _np.isclose(a, b, rtol=rtol, atol=atol, equal_nan=equal_nan)

    @staticmethod
    def isfinite(x):
        if isinstance(x, _np.ndarray) and x.dtype == object:
            return _np.ones(x.shape, dtype=bool)
        if isinstance(x, (S, Dual, Env)):
            return True
        return _np.isfinite(x)

    @staticmethod
    def unique(x):
        if _has_sym(x):
            out = []
            for e in x:
                if not any(bool(e == o) for o in out):
                    out.append(e)
            # sort by decisions
            res = []
            for e in out:
                i = 0
                while i < len(res) and bool(res[i] < e):
                    i += 1
                res.insert(i, e)
            return _np.array(res, dtype=object)
        return _np.unique(x)

    @staticmethod
    def exp(x):
        if _has_sym(x):
            if isinstance(x, _np.ndarray):
                return _np.array([NPShim.exp(e) for e in x], dtype=object)
            if isinstance(x, S):
                # exp(log(u)) = u : only inverse of an existing log atom is representable
                c = real.cur()
                for at in c.atoms.values():
                    if at.fn == "log" and at.var.get_id() == x.t.get_id():
                        w = real._eval_w(at.arg, c)
                        return S(at.arg, w if w is not None else at.argw)
            raise real.NotEncodable("exp of symbolic value")
        return _np.exp(x)

    @staticmethod
    def zeros(shape, dtype=None, **kw):
        return _np.zeros(shape, dtype=dtype, **kw)

    @staticmethod
    def digitize(x, bins, right=False):
        """Documented meaning for increasing bins: number of bins[i] <= x (right=False)."""
        if _has_sym(x) or _has_sym(bins):
            n = 0
            for b in bins:
                if (b < x) if right else (b <= x):
                    n += 1
            return n
        return _np.digitize(x, bins, right=right)


class ObjZerosShim(NPShim):
    """np.zeros gives object arrays (for result tensors that will hold proxies)."""

    @staticmethod
    def zeros(shape, dtype=None, **kw):
        a = _np.empty(shape, dtype=object)
        a.fill(0)
        return a


@contextlib.contextmanager
def patched(*pairs):
    """patched((module, 'attr', value), ...) -- rebind and restore."""
    saved = []
    try:
        for mod, attr, val in pairs:
            saved.append((mod, attr, getattr(mod, attr)))
            setattr(mod, attr, val)
        yield
    finally:
        for mod, attr, old in reversed(saved):
            setattr(mod, attr, old)
