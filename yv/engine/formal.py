"""Formal expressions in (z, ln z, ln(1-z), 1/(1-z)) with symbolic (S) coefficients, and their definite integral over (0,1).

Used by C04 (first moments): a real kernel `reg(z, args)` is executed once on the generator `Z` -- every arithmetic
operation of the kernel acts on a finite sum

        sum_k  c_k(nf) * z^a_k * ln(z)^b_k * ln(1-z)^c_k * (1/(1-z))^d_k,       c_k an S (z3 term in the free symbols, e.g. nf)

so that after the run the kernel *is* such a sum (exactly, floats of the source are read as the rationals they denote).
The definite integral is linear in the c_k; the integrals of the monomials are mathematical constants (derivatives of
the Beta function) taken from a table computed once with 40-digit mpmath quadrature and validated against the closed
forms (-1)^b b!/(a+1)^(b+1), (-1)^c c!, (-1)^b b! zeta(b+1) and the z <-> 1-z symmetry.  What comes out is an S term in
the free symbols that the solver can compare with a reference for every value of those symbols.

Anything the algebra cannot represent (comparison on z, logarithm of another argument, division by another polynomial,
a non-integrable monomial that does not cancel) raises NotFormal and is reported as inconclusive by the caller.
"""

import functools
import math
from fractions import Fraction as Fr

import numpy as np

from .real import S, tofrac


class NotFormal(Exception):
    pass


def _c(o):
    """coefficient: S (constants fold)"""
    if isinstance(o, S):
        return o
    if isinstance(o, np.ndarray) and o.ndim == 0:
        o = o.item()
        if isinstance(o, S):
            return o
    return S.lift(tofrac(o))


def _zero(c):
    return c.const is not None and c.const == 0


def _is_scalar(o):
    if isinstance(o, (S, int, float, Fr, np.number)):
        return True
    return isinstance(o, np.ndarray) and o.ndim == 0 and not isinstance(o.item(), Poly)


class Poly:
    """finite sum of c * z^a * L0^b * L1^c * D^d  (L0 = ln z, L1 = ln(1-z), D = 1/(1-z)); keys (a, b, c, d)"""

    __array_priority__ = 2000
    __slots__ = ("t",)

    def __init__(self, terms=None):
        self.t = {}
        for k, v in (terms or {}).items():
            self._acc(k, v)

    # -- normal form: z * D = D - 1 ------------------------------------------------------------------------------
    def _acc(self, k, v):
        a, b, c, d = k
        if _zero(v):
            return
        if a >= 1 and d >= 1:
            self._acc((a - 1, b, c, d), v)
            self._acc((a - 1, b, c, d - 1), -v)
            return
        if k in self.t:
            n = self.t[k] + v
            if _zero(n):
                del self.t[k]
            else:
                self.t[k] = n
        else:
            self.t[k] = v

    @staticmethod
    def lift(o):
        if isinstance(o, Poly):
            return o
        if isinstance(o, np.ndarray) and o.ndim == 0:
            o = o.item()
            if isinstance(o, Poly):
                return o
        if _is_scalar(o):
            return Poly({(0, 0, 0, 0): _c(o)})
        raise NotFormal(f"cannot lift {type(o).__name__}")

    # -- arithmetic --------------------------------------------------------------------------------------------------
    def __add__(s, o):
        if isinstance(o, np.ndarray) and o.ndim > 0:
            return NotImplemented
        o = Poly.lift(o)
        r = Poly(s.t)
        for k, v in o.t.items():
            r._acc(k, v)
        return r

    __radd__ = __add__

    def __neg__(s):
        return Poly({k: -v for k, v in s.t.items()})

    def __pos__(s):
        return s

    def __sub__(s, o):
        return s + (-Poly.lift(o))

    def __rsub__(s, o):
        return Poly.lift(o) + (-s)

    def __mul__(s, o):
        if isinstance(o, np.ndarray) and o.ndim > 0:
            return NotImplemented
        o = Poly.lift(o)
        r = Poly()
        for (a1, b1, c1, d1), v1 in s.t.items():
            for (a2, b2, c2, d2), v2 in o.t.items():
                r._acc((a1 + a2, b1 + b2, c1 + c2, d1 + d2), v1 * v2)
        return r

    __rmul__ = __mul__

    def _inverse(s):
        """1/s for s = c z^k  or  s = c (1-z)"""
        items = list(s.t.items())
        if len(items) == 1:
            (a, b, c, d), v = items[0]
            if b == 0 and c == 0 and v.const is not None:
                # c z^a D^d: inverse is z^-a (1-z)^d / c
                r = Poly({(-a, 0, 0, 0): _c(1 / v.const)})
                om = Poly({(0, 0, 0, 0): _c(1), (1, 0, 0, 0): _c(-1)})
                for _ in range(d):
                    r = r * om
                return r
        if len(items) == 2 and set(s.t) == {(0, 0, 0, 0), (1, 0, 0, 0)}:
            c0, c1 = s.t[(0, 0, 0, 0)], s.t[(1, 0, 0, 0)]
            if c0.const is not None and c1.const is not None and c0.const == -c1.const:
                return Poly({(0, 0, 0, 1): _c(1 / c0.const)})
        raise NotFormal(f"division by {s!r}")

    def __truediv__(s, o):
        if _is_scalar(o):
            return s * (1 / _c(o))
        return s * Poly.lift(o)._inverse()

    def __rtruediv__(s, o):
        return Poly.lift(o) * s._inverse()

    def __pow__(s, n):
        if isinstance(n, S):
            n = n.const
        if n is None:
            raise NotFormal("symbolic exponent")
        fr = tofrac(n)
        if fr.denominator != 1:
            raise NotFormal(f"non-integer power {n}")
        n = int(fr)
        if n < 0:
            return (s ** (-n))._inverse()
        r = Poly({(0, 0, 0, 0): _c(1)})
        for _ in range(n):
            r = r * s
        return r

    def __rpow__(s, base):
        raise NotFormal("formal exponent")

    # -- elementary functions ------------------------------------------------------------------------------------------
    def log(s):
        one, m1 = Fr(1), Fr(-1)
        cs = {k: v.const for k, v in s.t.items()}
        if cs == {(1, 0, 0, 0): one}:
            return Poly({(0, 1, 0, 0): _c(1)})
        if cs == {(0, 0, 0, 0): one, (1, 0, 0, 0): m1}:
            return Poly({(0, 0, 1, 0): _c(1)})
        if cs == {(-1, 0, 0, 0): one, (0, 0, 0, 0): m1}:  # (1-z)/z
            return Poly({(0, 0, 1, 0): _c(1), (0, 1, 0, 0): _c(-1)})
        if cs == {(0, 0, 0, 1): one, (0, 0, 0, 0): m1}:  # z/(1-z) = D - 1
            return Poly({(0, 1, 0, 0): _c(1), (0, 0, 1, 0): _c(-1)})
        if cs == {(0, 0, 0, 1): one}:  # 1/(1-z)
            return Poly({(0, 0, 1, 0): _c(-1)})
        if set(cs) <= {(0, 0, 0, 0)}:
            c = cs.get((0, 0, 0, 0), Fr(0))
            if c is not None and c > 0:
                return Poly.lift(math.log(c))
        raise NotFormal(f"log of {s!r}")

    def sqrt(s):
        raise NotFormal("sqrt of a formal expression")

    exp = sqrt

    def _nocmp(s, o):
        raise NotFormal("comparison on the formal variable (the kernel branches on z)")

    __lt__ = __le__ = __gt__ = __ge__ = _nocmp

    def __bool__(s):
        raise NotFormal("truth value of a formal expression")

    def __float__(s):
        raise NotFormal("float() of a formal expression")

    def __repr__(s):
        return "Poly(" + " + ".join(f"{v.const if v.const is not None else '<sym>'}*{k}" for k, v in list(s.t.items())[:6]) + (" ..." if len(s.t) > 6 else "") + ")"

    # -- evaluation (translator validation) and integration -------------------------------------------------------------
    def evaluate(s, z, sub):
        """float value at z; `sub(S) -> float` evaluates a coefficient"""
        l0, l1, d = math.log(z), math.log(1 - z), 1 / (1 - z)
        return sum(sub(v) * z**a * l0**b * l1**c * d**dd for (a, b, c, dd), v in s.t.items())

    def integral(s):
        """int_0^1 of the expression as an S; raises NotFormal for a monomial that is not integrable on (0,1)"""
        tot = _c(0)
        for (a, b, c, d), v in sorted(s.t.items()):
            tot = tot + v * _c(monomial_integral(a, b, c, d))
        return tot


Z = Poly({(1, 0, 0, 0): _c(1)})


@functools.lru_cache(maxsize=None)
def monomial_integral(a, b, c, d):
    """int_0^1 z^a ln^b(z) ln^c(1-z) (1-z)^-d dz as a rational (35 significant digits)"""
    if a < 0 and not (b == 0 and c >= -a):
        # z^-k ln^c(1-z) is integrable for c >= k (ln(1-z) ~ -z); anything else with a negative power is not
        raise NotFormal(f"non-integrable monomial z^{a} L0^{b} L1^{c} D^{d}")
    if d > 1 or (d == 1 and b == 0):
        raise NotFormal(f"non-integrable monomial z^{a} L0^{b} L1^{c} D^{d}")
    import mpmath as mp

    with mp.workdps(45):
        def f(x):
            return x**a * mp.log(x) ** b * mp.log(1 - x) ** c / (1 - x) ** d

        v = mp.quad(f, [0, mp.mpf(1) / 4, mp.mpf(1) / 2, mp.mpf(3) / 4, 1])
        return Fr(mp.nstr(v, 36, strip_zeros=False))


def table_selfcheck():
    """closed forms the quadrature table must reproduce (1e-30); returns the number of identities checked"""
    import mpmath as mp

    n = 0
    with mp.workdps(45):
        def close(x, y):
            return abs(mp.mpf(x.numerator) / x.denominator - y) < mp.mpf(10) ** -30 * (1 + abs(y))

        for a in range(0, 4):
            for b in range(0, 7):
                assert close(monomial_integral(a, b, 0, 0), (-1) ** b * mp.factorial(b) / mp.mpf(a + 1) ** (b + 1)), (a, b)
                n += 1
        for c in range(0, 7):
            assert close(monomial_integral(0, 0, c, 0), (-1) ** c * mp.factorial(c)), c
            n += 1
        for b in range(1, 6):
            assert close(monomial_integral(0, b, 0, 1), (-1) ** b * mp.factorial(b) * mp.zeta(b + 1)), b
            n += 1
        assert close(monomial_integral(0, 1, 1, 0), 2 - mp.zeta(2))
        n += 1
        for b, c in ((1, 2), (2, 1), (1, 3), (2, 3)):
            x, y = monomial_integral(0, b, c, 0), monomial_integral(0, c, b, 0)
            assert abs(x - y) < Fr(1, 10**30), (b, c)
            n += 1
    return n
