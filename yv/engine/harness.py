"""Common check runner: obligations, replays, known findings, evidence, exit codes."""

import fnmatch
import hashlib
import inspect
import json
import os
import sys
import time
import traceback

import z3

from . import solve

VERIF = os.path.dirname(os.path.dirname(os.path.dirname(os.path.abspath(__file__))))
EXIT_OK, EXIT_VIOLATION, EXIT_INCONCLUSIVE = 0, 1, 2


def _explore_stats():
    from . import explore

    d = dict(explore.STATS)
    d["solver_s"] = round(d["solver_s"], 3)
    return d


def load_findings():
    p = os.path.join(VERIF, "known_findings.json")
    if not os.path.exists(p):
        return {"known": [], "fixed": []}
    with open(p) as f:
        return json.load(f)


def src_hash(obj):
    try:
        return hashlib.sha1(inspect.getsource(obj).encode()).hexdigest()[:12]
    except Exception:  # noqa
        return "n/a"


def qualname(obj):
    m = getattr(obj, "__module__", "?")
    q = getattr(obj, "__qualname__", getattr(obj, "__name__", repr(obj)))
    return f"{m}.{q}"


class StopEarly(Exception):
    """raised by Check.report once 4 x cap violations have been recorded"""


class Check:
    """One run of one property check."""

    def __init__(self, pid, tier, seed, replayers=None):
        self.pid, self.tier, self.seed = pid, tier, seed
        self.t0 = time.time()
        # sharding: VERIF_SHARD="i/n" -> this process handles the cells whose key hashes to i (yv.run --jobs merges the evidence)
        sh = os.environ.get("VERIF_SHARD", "0/1").split("/")
        self.shard = (int(sh[0]), int(sh[1]))
        self.first = self.shard[0] == 0  # one-off parts (vacuity twins, CrossHair, tables) run in shard 0 only
        self.prover = solve.Prover(timeout_ms=60000 if tier == "quick" else 300000,
                                   cross=(tier == "thorough"))
        self.findings = load_findings()
        self.replayers = replayers or {}
        self.obligations = 0
        self.discharged = 0
        self.nontrivial = set()
        self.evaluations = 0
        self.paths = 0
        self.violations = []  # (key, what, replay_path)
        self.known_hits = []
        self.inconclusive = []
        self.samples = []
        self.functions = {}
        self.assumptions = []
        self.stubs = []
        self.bounds = {}
        self.notes = []
        self.validated = 0
        self.exhaustive = False
        self.sections = {}
        self.vacuity = {"reach_ok": 0, "perturb_ok": 0}
        self._nrep = 0
        self.cap_violations = 25

    def mine(self, key):
        """is the cell identified by `key` handled by this shard?"""
        import zlib

        return zlib.crc32(str(key).encode()) % self.shard[1] == self.shard[0]

    # ---- bookkeeping ----
    def encode(self, *objs):
        for o in objs:
            self.functions[qualname(o)] = src_hash(o)

    def assume(self, *texts):
        for t in texts:
            if t not in self.assumptions:
                self.assumptions.append(t)

    def stub(self, *texts):
        for t in texts:
            if t not in self.stubs:
                self.stubs.append(t)

    def sample(self, obj):
        if len(self.samples) < 8:
            self.samples.append(obj)

    def section(self, name, **kv):
        d = self.sections.setdefault(name, {})
        for k, v in kv.items():
            if isinstance(v, (int, float)) and isinstance(d.get(k), (int, float)):
                d[k] += v
            else:
                d[k] = v

    # ---- obligations ----
    def prove(self, label, claim, assumptions=(), key=None, replay=None, nontrivial=True, what=None):
        """Discharge `assumptions => claim`.

        On `sat` the model is given to `replay(model)` which must return (kind, args) for a registered
        replayer, or None if the candidate cannot be concretised.  Returns True iff proved."""
        self.obligations += 1
        self.evaluations += 1
        if nontrivial:
            self.nontrivial.add(label)
        self._progress(label)
        v = self.prover.prove(claim, assumptions, label)
        if v.status == "unsat":
            self.discharged += 1
            return True
        # sat (candidate counterexample) or unknown: try the model, then the run's witness point
        cands = []
        if replay is not None:
            for m in ([v.model] if v.status == "sat" else []) + [None]:
                try:
                    r = replay(m)
                except Exception as e:  # noqa
                    r = None
                    self.notes.append(f"replay builder failed for {label}: {e!r}")
                if r is not None:
                    cands.append(r)
        for kind, args in cands:
            fn = self.replayers.get(kind)
            good = self._try_replay(fn, args)
            if good:
                self.report(key or label, what or label, kind, args)
                return False
        if v.status == "unknown":
            self.inconclusive.append(f"{label}: solver returned unknown after {v.secs:.1f}s")
        elif not cands:
            self.inconclusive.append(f"{label}: candidate counterexample could not be concretised")
        else:
            self.validated += len(cands)
            self.inconclusive.append(f"{label}: candidate counterexample did not reproduce on the real code")
        return False

    def expect_sat(self, label, conds, what="reachability", ctx=None):
        """Vacuity guard: the conjunction must be satisfiable (if the solver gives up, the run's witness point is offered
        as a model candidate: all variables fixed, the query becomes a ground evaluation)."""
        old = self.prover.timeout_ms
        self.prover.timeout_ms = min(old, 20000)
        try:
            v = self.prover.check(conds, label + ":vacuity")
            if v.status == "unknown" and ctx is not None:
                from .real import zval

                fix = [var == zval(ctx.assign[n]) for n, (var, _, _) in ctx.vars.items() if n in ctx.assign]
                v = self.prover.check(list(conds) + fix, label + ":vacuity@witness")
        finally:
            self.prover.timeout_ms = old
        self.evaluations += 1
        if v.status == "sat":
            self.vacuity["reach_ok" if what == "reachability" else "perturb_ok"] += 1
            return v.model
        self.inconclusive.append(f"{label}: vacuity guard ({what}) came back {v.status}")
        return None

    # ---- violations ----
    def report(self, key, what, kind, args):
        """Replay a concrete candidate against the real code; print VIOLATION only if it reproduces."""
        fn = self.replayers.get(kind)
        if fn is None:
            self.inconclusive.append(f"{key}: no replayer '{kind}'")
            return False
        from . import real as _real
        from . import stubs as _stubs

        prev_ctx, _real._CUR[0] = _real._CUR[0], None  # replays are float runs: no symbolic context, no stubs
        try:
            with _stubs.suspended():
                ok, detail = fn(args)
        except Exception as e:  # noqa
            ok, detail = False, f"replayer crashed: {e!r}\n{traceback.format_exc()[-600:]}"
        finally:
            _real._CUR[0] = prev_ctx
        self.validated += 1
        if not ok:
            self.inconclusive.append(f"{key}: candidate did not reproduce on the real code ({detail})")
            return False
        # known finding?
        for kf in self.findings.get("known", []):
            if kf.get("property") == self.pid and fnmatch.fnmatchcase(key, kf.get("key", "")):
                if (kf["key"], kf.get("what", "")) not in [(k, w) for k, w, _ in self.known_hits]:
                    print(f"KNOWN-FINDING: property={self.pid} {kf.get('what', key)} [{key}]", flush=True)
                self.known_hits.append((kf["key"], kf.get("what", ""), key))
                return True
        if len(self.violations) >= self.cap_violations:
            self.violations.append((key, what, None))
            if len(self.violations) >= 4 * self.cap_violations:
                # a broken tree can make every cell fail: enough has been reported, stop exploring (bounded run time)
                raise StopEarly(f"{len(self.violations)} violations reported")
            return True
        repdir = os.environ.get("VERIF_REPLAY_DIR") or os.path.join(VERIF, "replays")
        os.makedirs(repdir, exist_ok=True)
        self._nrep += 1
        tag = f"s{self.shard[0]}-" if self.shard[1] > 1 else ""
        path = os.path.join(repdir, f"{self.pid}-{tag}{self._nrep}.json")
        with open(path, "w") as f:
            json.dump({"property": self.pid, "key": key, "what": what, "kind": kind, "args": args,
                       "detail": str(detail)[:2000]}, f, indent=1, default=str)
        print(f"VIOLATION property={self.pid} replay={path}", flush=True)
        print(f"  what: {what}\n  key: {key}\n  detail: {str(detail)[:600]}", flush=True)
        self.violations.append((key, what, path))
        return True

    def _try_replay(self, fn, args):
        from . import real as _real
        from . import stubs as _stubs

        if fn is None:
            return False
        prev_ctx, _real._CUR[0] = _real._CUR[0], None
        try:
            with _stubs.suspended():
                good, _ = fn(args)
        except Exception:  # noqa
            good = False
        finally:
            _real._CUR[0] = prev_ctx
        return bool(good)

    def _progress(self, label):
        """developer aid: the label being worked on, at most once per 5 s, next to the evidence of this process"""
        now = time.time()
        if now - getattr(self, "_plast", 0) < 5:
            return
        self._plast = now
        try:
            d = os.environ.get("VERIF_EVIDENCE_DIR")
            if d:
                os.makedirs(d, exist_ok=True)
                with open(os.path.join(d, f"{self.pid}.progress"), "a") as f:
                    f.write(f"{now - self.t0:8.1f}s obligations={self.obligations} queries={self.prover.queries} {label[:160]}\n")
        except Exception:  # noqa
            pass

    def inconclusive_note(self, text):
        self.inconclusive.append(text)

    def tv_note(self, cname, ok, text):
        """one translator-validation comparison done by the harness itself (encoding value vs float run of the real code)"""
        d = self.sections.setdefault("translator_validation", {"cases": 0, "values_compared": 0, "mismatches": 0})
        d["values_compared"] += 1
        self.validated += 1
        if not ok:
            d["mismatches"] += 1
            self.inconclusive.append(f"translator validation: {cname}: {text}")

    # ---- finish ----
    def finish(self, level="other", explanation="", rule="", extra=None):
        wall = time.time() - self.t0
        cov = {
            "explanation": explanation,
            "rule": rule,
            "evaluations": max(1, self.evaluations),
            "distinct_nontrivial": len(self.nontrivial),
            "obligations": self.obligations,
            "discharged": self.discharged,
            "paths": self.paths,
            "traces_validated_against_impl": self.validated,
            "samples": (self.samples + self.prover.samples)[:10] or [{"note": "no sample recorded"}],
            "exhaustive": bool(self.exhaustive),
            "functions_encoded": self.functions,
            "bounds": self.bounds,
            "stubs": self.stubs,
            "solver": self.prover.stats(),
            "path_exploration": _explore_stats(),
            "vacuity_guards": self.vacuity,
            "sections": self.sections,
            "known_findings_hit": sorted({k for k, _, _ in self.known_hits}),
            "inconclusive": self.inconclusive[:20],
            "notes": self.notes[:20],
            "violations_detail": [{"key": k, "what": w, "replay": p} for k, w, p in self.violations[:30]],
        }
        if extra:
            cov.update(extra)
        ev = {
            "property_id": self.pid,
            "tier": self.tier,
            "seed": int(self.seed),
            "level": level,
            "coverage": cov,
            "assumptions": self.assumptions,
            "wall_s": round(wall, 2),
            "violations": len(self.violations),
        }
        evdir = os.environ.get("VERIF_EVIDENCE_DIR") or os.path.join(VERIF, "evidence")  # override: developer screening runs only
        os.makedirs(evdir, exist_ok=True)
        with open(os.path.join(evdir, f"{self.pid}.json"), "w") as f:
            json.dump(ev, f, indent=1, default=str)
        st = self.prover.stats()
        print(f"[{self.pid}] tier={self.tier} obligations={self.obligations} discharged={self.discharged} "
              f"paths={self.paths} queries={st['queries']}+{_explore_stats()['feasibility_queries']} solver_s={st['solver_s']}+{_explore_stats()['solver_s']} wall_s={wall:.1f} "
              f"violations={len(self.violations)} known={len(self.known_hits)} inconclusive={len(self.inconclusive)}",
              flush=True)
        if self.prover.cross_disagree:
            self.inconclusive.append(f"solver disagreement: {self.prover.cross_disagree[:3]}")
        if self.violations:
            return EXIT_VIOLATION
        if self.inconclusive:
            for t in self.inconclusive[:20]:
                print(f"INCONCLUSIVE: {t}", flush=True)
            return EXIT_INCONCLUSIVE
        return EXIT_OK


def run_replay(path, replayers):
    with open(path) as f:
        rec = json.load(f)
    fn = replayers.get(rec["kind"])
    if fn is None:
        print(f"no replayer {rec['kind']}")
        return EXIT_INCONCLUSIVE
    ok, detail = fn(rec["args"])
    print(f"replay {path}: reproduces={ok}\n{detail}")
    if ok:
        print(f"VIOLATION property={rec['property']} replay={path}")
        return EXIT_VIOLATION
    return EXIT_OK


def _eq_term(impl, ref):
    from .real import S

    if isinstance(ref, tuple):
        return z3.Or(*[S.lift(impl).t == S.lift(r).t for r in ref])
    if isinstance(impl, (bool,)) or isinstance(ref, (bool,)):
        return z3.BoolVal(bool(impl) == bool(ref))
    return S.lift(impl).t == S.lift(ref).t


def _witness_differs(impl, ref):
    from .real import S

    if isinstance(impl, bool) or isinstance(ref, bool):
        return bool(impl) != bool(ref)
    try:
        a = S.lift(impl).w
        refs = ref if isinstance(ref, tuple) else (ref,)
        bs = [S.lift(r).w for r in refs]
    except Exception:  # noqa
        return False
    return all(abs(a - b) > abs(b) * 1e-9 + 1e-12 for b in bs)


def prove_pairs(chk, cname, pairs, facts, replay_for, key_for, sample=None):
    """pairs: [(label, implementation value, oracle value)].

    Pairs whose values already differ at the run's witness point are replayed on floats right away (a
    reproducing concrete counterexample needs no solver).  Everything else: one solver query for the
    conjunction; on failure one per pair (localisation, model -> replay).  True iff all proved."""
    ok = True
    rest = []
    for lab, impl, ref in pairs:
        if _witness_differs(impl, ref):
            rep = None
            try:
                rep = replay_for(lab)(None)
            except Exception:  # noqa
                rep = None
            if rep is not None:
                n0 = len(chk.violations) + len(chk.known_hits)
                good = chk._try_replay(chk.replayers.get(rep[0]), rep[1])
                if good:
                    chk.obligations += 1
                    chk.evaluations += 1
                    chk.nontrivial.add(cname)
                    chk.report(key_for(lab), f"{cname}: {lab} violates the relation", rep[0], rep[1])
                    ok = False
                    continue
        rest.append((lab, impl, ref))
    _translator_validation(chk, cname, rest, replay_for)
    eqs = [(lab, _eq_term(impl, ref)) for lab, impl, ref in rest]
    if not eqs:
        return ok
    conj = z3.And(*[e for _, e in eqs])
    v = chk.prover.prove(conj, facts, cname)
    chk.evaluations += 1
    if v.status == "unsat":
        chk.obligations += len(eqs)
        chk.discharged += len(eqs)
        chk.nontrivial.add(cname)
        if sample is not None and len(chk.samples) < 4:
            chk.sample(sample)
        return ok
    old = chk.prover.timeout_ms
    chk.prover.timeout_ms = min(old, 15000)
    try:
        for lab, e in eqs:
            if not chk.prove(f"{cname}:{lab}", e, facts, key=key_for(lab), replay=replay_for(lab),
                             what=f"{cname}: {lab} violates the relation"):
                ok = False
    finally:
        chk.prover.timeout_ms = old
    return ok


def _translator_validation(chk, cname, pairs, replay_for):
    """Serval-style validation of the encoding: the harness is re-run on plain floats at the run's witness point (real code,
    no proxies, no stubs) and every implementation value must agree with the witness carried by the corresponding z3 term.
    Done for the first cases of each check (10 quick / 100 thorough); a mismatch, or a float run that raises, is inconclusive (exit 2)."""
    from . import real as _real
    from . import stubs as _stubs
    from .real import S

    limit = 10 if chk.tier == "quick" else 100
    if getattr(chk, "_nval", 0) >= limit or not pairs:
        return
    try:
        rep = replay_for(pairs[0][0])(None)
    except Exception:  # noqa
        return
    if rep is None:
        return
    fn = chk.replayers.get(rep[0] + ":pairs")
    if fn is None:
        return
    chk._nval = getattr(chk, "_nval", 0) + 1
    prev_ctx, _real._CUR[0] = _real._CUR[0], None
    try:
        with _stubs.suspended():
            fpairs = fn(rep[1])
    except Exception as e:  # noqa
        # the symbolic run of this case returned values, the float run of the same harness on the real code raises: either the proxies
        # hide an error that only real floats / NumPy scalars trigger, or the harness is wrong -- never a pass
        chk.inconclusive.append(f"translator validation: {cname}: float run of the real code raises {type(e).__name__}: {str(e)[:120]} "
                                f"where the symbolic run returned values")
        return
    finally:
        _real._CUR[0] = prev_ctx
    # labels may repeat (e.g. the same class for charm, bottom, top, or for several orders); their relative order need not be the
    # same in both runs, so only labels that are unique in both runs are compared
    fmap, seen = {}, {}
    for lab, impl, _ in fpairs:
        k = seen.get(lab, 0)
        seen[lab] = k + 1
        fmap[(lab, k)] = impl
    fcount = dict(seen)
    pcount = {}
    for lab, _, _ in pairs:
        pcount[lab] = pcount.get(lab, 0) + 1
    n = bad = 0
    seen = {}
    for lab, impl, _ in pairs:
        k = seen.get(lab, 0)
        seen[lab] = k + 1
        fv = fmap.get((lab, k))
        if fv is None or pcount[lab] != 1 or fcount.get(lab) != 1 or isinstance(impl, bool) or isinstance(fv, bool):
            continue
        try:
            w = float(S.lift(impl).w)
            f = float(fv)
        except Exception:  # noqa
            continue
        n += 1
        if abs(w - f) > 1e-6 * max(1.0, abs(f)):
            bad += 1
            if bad <= 3:
                chk.inconclusive.append(f"translator validation: {cname}: {lab}: z3-term witness {w} != float run of the real code {f}")
    d = chk.sections.setdefault("translator_validation", {"cases": 0, "values_compared": 0, "mismatches": 0})
    d["cases"] += 1
    d["values_compared"] += n
    d["mismatches"] += bad
    chk.validated += n


def float_pairs_differ(pairs, label=None, rtol=1e-9):
    bad = []
    for lab, impl, ref in pairs:
        if label and lab != label:
            continue
        if isinstance(ref, bool) or isinstance(impl, bool):
            if bool(impl) != bool(ref):
                bad.append((lab, impl, ref))
            continue
        refs = ref if isinstance(ref, tuple) else (ref,)
        if all(abs(float(impl) - float(r)) > rtol * max(1.0, abs(float(r))) for r in refs):
            bad.append((lab, float(impl), [float(r) for r in refs]))
    return bad
