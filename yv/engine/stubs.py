"""Environment stubs for the coefficient-function packages (DESIGN §1 'No silent concretisation').

Every transcendental special function and every external library call becomes an atom.
The stubs are installed by rebinding module attributes for the duration of a run.
"""

import contextlib
import math
import sys
import types

import numpy as _np

from . import npshim, real
from .real import S, Dual, Env


def _symbolic(*a):
    return any(isinstance(x, (S, Dual, Env)) for x in a)


class _Recorder:
    calls = []


def nielsen_stub(orig):
    def nielsen(n, p, x):
        if not _symbolic(x):
            return orig(n, p, x)
        if (int(n), int(p)) == (2, 1):
            return real.li3(x)
        if (int(n), int(p)) == (1, 1):
            # Li2, complex above the cut: Im = -pi ln x
            if bool(x > 1):
                return real.C(real.li2_real(x), -real.pi_q() * x.log())
            return real.li2_real(x)
        if isinstance(x, (Dual,)):
            raise real.NotEncodable("derivative of Nielsen polylog not modelled")
        if isinstance(x, Env):
            return Env.lift(real.cur().atom_n(f"nielsen_{int(n)}_{int(p)}", [x.v],
                                              true_fn=lambda xv: float(_np.real(orig(int(n), int(p), xv)))))
        return real.cur().atom_n(f"nielsen_{int(n)}_{int(p)}", [x],
                                 true_fn=lambda xv: float(_np.real(orig(int(n), int(p), xv))))

    return nielsen


def li2_stub(orig):
    def li2(x):
        if not _symbolic(x):
            return orig(x)
        return real.li2(x)

    return li2


def spence_stub(orig):
    def spence(z):
        if not _symbolic(z):
            return orig(z)
        return real.spence(z)

    return spence


class ExternalLib:
    """Stands for LeProHQ / adani: every function is an uninterpreted function of its arguments.

    String arguments become part of the function name; numeric ones are the atom's arguments."""

    def __init__(self, name, orig=None):
        self._name = name
        self._orig = orig
        self.calls = []

    def _validate(self, fn, args):
        """the library's own table look-ups (string keys such as projection / coupling, or an unknown function name) are part of the call's
        contract: each distinct (function, strings) combination is tried once on the REAL library at the witness point; a look-up failure
        (KeyError, AttributeError, TypeError, ValueError about an unknown key) is raised here exactly as the real call would raise it"""
        if self._orig is None:
            return
        strs = tuple(a for a in args if isinstance(a, str))
        key = (fn, strs, len(args))
        seen = self.__dict__.setdefault("_validated", {})
        if key in seen:
            if seen[key] is not None:
                raise seen[key]
            return
        seen[key] = None

        def num(a):
            for attr in ("v", ):
                if isinstance(a, Env):
                    a = a.v
            if isinstance(a, Dual):
                a = a.v
            w = getattr(a, "w", None)
            return float(w) if w is not None else a

        try:
            getattr(self._orig, fn)(*[a if isinstance(a, str) else num(a) for a in args])
        except (KeyError, AttributeError, TypeError) as e:
            seen[key] = e
            raise
        except Exception:  # noqa  (numerical trouble at the witness point is not a look-up failure)
            pass

    def __getattr__(self, fn):
        if fn.startswith("__"):
            raise AttributeError(fn)
        lib = self

        def call(*args, **kw):
            strs = [str(a) for a in args if isinstance(a, str)]
            nums = [a for a in args if not isinstance(a, str)]
            lib.calls.append((fn, tuple(strs), len(nums)))
            lib._validate(fn, args)
            if any(isinstance(a, Dual) for a in nums):
                raise real.NotEncodable(f"derivative through external {lib._name}.{fn}")
            env = any(isinstance(a, Env) for a in nums)
            nums = [a.v if isinstance(a, Env) else a for a in nums]
            r = real.cur().atom_n("_".join([lib._name, fn] + strs), nums)
            return Env.lift(r) if env else r

        return call


_PRE = [False]


def _preimport():
    """Import every coefficient-function module BEFORE stubs are installed, so that module-level
    code (class attributes calling adani, grid loading) runs against the real libraries."""
    if _PRE[0]:
        return
    _PRE[0] = True
    import importlib
    import pkgutil

    import yadism.coefficient_functions as cf

    for mi in pkgutil.walk_packages(cf.__path__, cf.__name__ + "."):
        try:
            importlib.import_module(mi.name)
        except Exception:  # noqa  (import failures are reported by C16/C03 inventories)
            pass


def _interpolator_stub(coeff, nf, variation):
    name = f"heavyN3LO_{coeff}_nf{int(nf)}_var{int(variation)}"

    def call(xi, eta):
        if not _symbolic(xi, eta):
            raise real.NotEncodable("tabulated coefficient called on floats under stubs")
        env = isinstance(xi, Env) or isinstance(eta, Env)
        a = [v.v if isinstance(v, Env) else v for v in (xi, eta)]
        if any(isinstance(v, Dual) for v in a):
            raise real.NotEncodable("derivative through tabulated coefficient")
        r = real.cur().atom_n(name, a)
        return Env.lift(r) if env else r

    return call


class _Vec:
    """adani.Value: central / higher / lower"""

    def __init__(self, vals):
        self._v = vals

    def ToVect(self):
        return self._v

    def GetCentral(self):
        return self._v[0]

    def GetHigher(self):
        return self._v[1]

    def GetLower(self):
        return self._v[2]


class _AdaniObj:
    """adani.HighScaleSplitLogs instance: LL/NLL/N2LL(z, nf) numbers, N3LL(z, nf).ToVect() three numbers."""

    def __init__(self, name):
        self._name = name

    def __getattr__(self, fn):
        if fn.startswith("__"):
            raise AttributeError(fn)
        name = self._name

        def call(z, nf):
            if isinstance(z, Dual):
                raise real.NotEncodable("derivative through adani")
            env = isinstance(z, Env)
            zz = z.v if env else z
            if fn == "N3LL":
                vals = [real.cur().atom_n(f"{name}_{fn}_{i}_nf{int(nf)}", [zz]) for i in range(3)]
                return _Vec([Env.lift(v) if env else v for v in vals])
            r = real.cur().atom_n(f"{name}_{fn}_nf{int(nf)}", [zz])
            return Env.lift(r) if env else r

        return call


def _all_cf_modules():
    pref = "yadism.coefficient_functions"
    return [m for n, m in list(sys.modules.items()) if n.startswith(pref) and isinstance(m, types.ModuleType)]


_ACTIVE = []  # stack of `saved` lists of the installed stub layers


@contextlib.contextmanager
def suspended():
    """Temporarily put the real objects back (float replays must run against the real code and libraries)."""
    swapped = []
    try:
        for saved in reversed(_ACTIVE):
            for mod, attr, old in reversed(saved):
                swapped.append((mod, attr, getattr(mod, attr) if not isinstance(mod, type) else vars(mod).get(attr)))
                setattr(mod, attr, old)
        yield
    finally:
        for mod, attr, cur in reversed(swapped):
            setattr(mod, attr, cur)


@contextlib.contextmanager
def cf_stubs(np_shim=None, external=True):
    """Install atoms for li2/spence/nielsen (+ LeProHQ/adani) and the numpy shim in every loaded
    coefficient-function module.  Yields the dict of external library stubs."""
    import yadism.coefficient_functions  # noqa
    from yadism.coefficient_functions import special

    _preimport()
    from yadism.coefficient_functions.special import nielsen as nielsen_mod

    shim = np_shim or npshim.NPShim()
    try:
        import LeProHQ as _real_leprohq
    except Exception:  # noqa
        _real_leprohq = None
    libs = {"LeProHQ": ExternalLib("LeProHQ", _real_leprohq), "adani": ExternalLib("adani")}
    orig_li2, orig_nielsen = special.li2, nielsen_mod.nielsen
    saved = []

    def setm(mod, attr, val):
        saved.append((mod, attr, getattr(mod, attr)))
        setattr(mod, attr, val)

    special_ns = types.SimpleNamespace(**{k: getattr(special, k) for k in dir(special) if not k.startswith("__")})
    special_ns.li2 = li2_stub(orig_li2)
    _ACTIVE.append(saved)
    try:
        for m in _all_cf_modules():
            if m.__name__.startswith("yadism.coefficient_functions.special"):
                continue
            d = vars(m)
            if "np" in d and d["np"] is _np:
                setm(m, "np", shim)
            if "li2" in d and callable(d["li2"]):
                setm(m, "li2", li2_stub(d["li2"]))
            if "spence" in d and callable(d["spence"]):
                setm(m, "spence", spence_stub(d["spence"]))
            if "nielsen" in d and callable(d["nielsen"]) and not isinstance(d["nielsen"], types.ModuleType):
                setm(m, "nielsen", nielsen_stub(orig_nielsen))
            if "special" in d and d["special"] is special:
                setm(m, "special", special_ns)
            if external:
                for ln in libs:
                    if ln in d and isinstance(d[ln], types.ModuleType):
                        setm(m, ln, libs[ln])
                # tabulated N3LO heavy coefficients (RectBivariateSpline) -> uninterpreted functions of (xi, eta)
                if "interpolator" in d and callable(d["interpolator"]) and getattr(d["interpolator"], "__module__", "").endswith("heavy.n3lo"):
                    setm(m, "interpolator", _interpolator_stub)
                # adani objects held as class attributes
                for cname, cls in list(d.items()):
                    if isinstance(cls, type) and "hs3" in vars(cls) and cls.__module__ == m.__name__:
                        saved.append((cls, "hs3", vars(cls)["hs3"]))
                        setattr(cls, "hs3", _AdaniObj(f"adani_hs3_{m.__name__.split('.')[-1]}_{cname}"))
        yield libs
    finally:
        _ACTIVE.remove(saved)
        for mod, attr, old in reversed(saved):
            setattr(mod, attr, old)
