"""Running CrossHair harnesses (Engine B) and parsing the verdicts."""
import os
import re
import subprocess
import sys
import time

VERIF = os.path.dirname(os.path.dirname(os.path.dirname(os.path.abspath(__file__))))


def crosshair_check(target, timeout=30, extra_env=None):
    """target: 'yv.ch.h_fns.check_fns'.  Returns dict(status, text, secs).
    status in confirmed | refuted | unknown | error"""
    env = dict(os.environ)
    env["PYTHONPATH"] = VERIF + os.pathsep + env.get("PYTHONPATH", "")
    env.setdefault("NUMBA_DISABLE_JIT", "1")
    if extra_env:
        env.update(extra_env)
    cmd = [sys.executable, "-m", "crosshair", "check", "--report_all", "--per_condition_timeout", str(timeout),
           "--per_path_timeout", str(max(2, timeout // 4)), target]
    t0 = time.time()
    try:
        p = subprocess.run(cmd, capture_output=True, text=True, env=env, cwd=VERIF, timeout=timeout * 4 + 60)
        text = (p.stdout + p.stderr).strip()
    except subprocess.TimeoutExpired as e:
        return dict(status="unknown", text=f"crosshair timed out: {e}", secs=time.time() - t0)
    secs = time.time() - t0
    if "Confirmed over all paths" in text and "error:" not in text:
        st = "confirmed"
    elif re.search(r"error: (false|.*when calling)", text) or "error:" in text:
        st = "refuted"
    elif "Not confirmed" in text or "Unable to meet precondition" in text:
        st = "unknown"
    else:
        st = "error"
    return dict(status=st, text=text[-1500:], secs=secs)


def parse_counterexample(text, fname):
    """'... when calling check_fns(3, 7)' -> positional argument source text list"""
    m = re.search(re.escape(fname) + r"\((.*)\)", text)
    if not m:
        return None
    return m.group(1)
