"""Symbolic reals: proxies that run through the real yadism code and build z3 terms.

S      -- number proxy: z3 Real term + exact rational witness value (guides branches only)
SBool  -- symbolic comparison; bool() is a decision handed to the active explorer
Dual   -- forward-mode derivative pair of S (for loc' = -sing)
Ctx    -- variables, domain, atoms (log/sqrt/li2/external functions), obligations
"""

import fractions
import math
import numbers
import random

import numpy as np
import z3

Fr = fractions.Fraction


class NotEncodable(Exception):
    """The code under check did something the proxy cannot represent (counts as inconclusive)."""


class Concretised(TypeError):
    """A proxy reached a C boundary (float(), dtype=float, ...)."""


PI_CONSISTENT = [False]
PI_FR = Fr(repr(math.pi))


def tofrac(v):
    """float -> rational, the 'meaning of the source text' reading (DESIGN §1)."""
    if isinstance(v, Fr):
        return v
    if isinstance(v, (bool, np.bool_)):
        return Fr(int(v))
    if isinstance(v, (int, np.integer)):
        return Fr(int(v))
    v = float(v)
    if v != v or v in (math.inf, -math.inf):
        raise NotEncodable(f"non-finite literal {v}")
    f = Fr(v)
    g = f.limit_denominator(100000)
    if g == f or abs(g - f) <= abs(f) * 4e-16:
        return g
    if PI_CONSISTENT[0] and v != 0.0:
        # float values of q * pi^k (k = 1..4, q a simple rational; zeta2 = pi^2/6, 2 pi^2/3, ...) are read as q * P^k with ONE rational P for pi,
        # so that constants the source writes in different ways (np.pi**2 / 6 next to zeta2) stay consistent with each other (relative change 1e-16)
        for k in (2, 1, 4, 3):
            q = v / math.pi ** k
            h = Fr(q).limit_denominator(2000)
            if h != 0 and abs(float(h) - q) <= abs(q) * 1e-15:
                return h * PI_FR ** k
    return Fr(repr(v))


def zval(fr):
    return z3.RealVal(f"{fr.numerator}/{fr.denominator}") if fr.denominator != 1 else z3.RealVal(fr.numerator)


_CUR = [None]


def cur():
    c = _CUR[0]
    if c is None:
        raise RuntimeError("no active symbolic context")
    return c


class Atom:
    __slots__ = ("fn", "arg", "var", "argw", "name", "args")

    def __init__(self, fn, arg, var, argw, name, args=None):
        self.fn, self.arg, self.var, self.argw, self.name, self.args = fn, arg, var, argw, name, args


ZETA2_F = tofrac(1.6449340668482264)  # special.zeta.zeta2 as written in the source


def zeta2_q():
    """zeta2 as the current reading of the source's float gives it (pi-consistent reading: P^2/6)"""
    return tofrac(1.6449340668482264)


def pi2_3_q():
    return tofrac(math.pi ** 2 / 3)


def pi_q():
    return tofrac(math.pi)

TRUE_FN = {
    "log": lambda a: math.log(a),
    "sqrt": lambda a: math.sqrt(a),
}


def _true_li2(a):
    from scipy.special import spence

    return float(spence(1.0 - a))


TRUE_FN["li2"] = _true_li2


class Ctx:
    """One symbolic universe: variables with domains, atoms, obligations, explorer hook."""

    def __init__(self, seed=0, track_defined=False):
        self.rng = random.Random(seed)
        self.vars = {}  # name -> (z3var, lo, hi)
        self.order = []
        self.assign = {}  # name -> Fraction (witness point of this run)
        self.forced = {}  # name -> Fraction proposed by the solver for the next run
        self.domain = []  # z3 facts about variables
        self.atoms = {}  # (fn, repr-id) -> Atom
        self.atom_by_w = {}  # (fn, argw) -> [Atom]
        self.atom_by_id = {}  # (fn, simplified arg id) -> Atom (stable across runs)
        self.atom_facts = []  # z3 facts about atoms (sound consequences of the true functions)
        self.obligations = []  # (kind, z3 cond that must hold, pc snapshot tuple)
        self._obl_seen = set()
        self.track_defined = track_defined
        self.explorer = None
        self.stats = {"eq_queries": 0, "eq_time": 0.0, "atoms": 0}
        self._eq_cache = {}
        self._eq_solver = None
        self.keep = []  # keep ASTs alive so ids stay unique

    # -- context management --
    def __enter__(self):
        self._prev = _CUR[0]
        _CUR[0] = self
        return self

    def __exit__(self, *a):
        _CUR[0] = self._prev
        main_thread_gc()

    # -- variables --
    def var(self, name, lo=None, hi=None, lo_open=True, hi_open=True, wlo=None, whi=None):
        """Real variable with (optional) bounds; returns an S with a witness inside the domain."""
        if name not in self.vars:
            v = z3.Real(name)
            self.vars[name] = (v, lo, hi)
            self.order.append(name)
            if lo is not None:
                self.domain.append(v > zval(tofrac(lo)) if lo_open else v >= zval(tofrac(lo)))
            if hi is not None:
                self.domain.append(v < zval(tofrac(hi)) if hi_open else v <= zval(tofrac(hi)))
        v, lo, hi = self.vars[name]
        if name in self.forced:
            w = self.forced[name]
        elif name in self.assign:
            w = self.assign[name]
        else:
            a = wlo if wlo is not None else (lo if lo is not None else (hi - 10 if hi is not None else -5))
            b = whi if whi is not None else (hi if hi is not None else (a + 10))
            a, b = tofrac(a), tofrac(b)
            k = self.rng.randint(1, 9973 - 1)
            w = a + (b - a) * Fr(k, 9973)
        self.assign[name] = w
        return S(v, w)

    def var_w(self, name, w, lo=None, hi=None):
        """variable whose default witness is the given number (so that a float re-run of the harness can use the same value)"""
        if name not in self.vars and name not in self.forced:
            self.assign.setdefault(name, tofrac(w))
        return self.var(name, lo, hi)

    def fresh(self, prefix, w=None):
        """Unconstrained fresh real (for stubs: quadrature results, PDFs, external functions)."""
        n = f"{prefix}!{len(self.vars)}"
        return self.var(n, wlo=-3, whi=3) if w is None else self._fresh_w(n, w)

    def _fresh_w(self, n, w):
        v = z3.Real(n)
        self.vars[n] = (v, None, None)
        self.order.append(n)
        w = self.forced.get(n, tofrac(w))
        self.assign[n] = w
        return S(v, w)

    def reset_run(self, forced=None):
        """Start a new run: keep variables/atoms, draw new witnesses (or the solver's)."""
        self.assign = {}
        self.forced = dict(forced or {})

    # -- equality of terms decided by the solver (atom identification) --
    def proves_equal(self, a, b):
        if a.get_id() == b.get_id():
            return True
        key = (a.get_id(), b.get_id())
        if key in self._eq_cache:
            return self._eq_cache[key]
        import time

        t0 = time.time()
        s = z3.Solver()
        s.set("timeout", 2000)
        s.add(*self.domain)
        s.add(a != b)
        from . import watchdog

        with watchdog.watch(2000, "atom identification"):
            r = str(s.check())
        self.stats["eq_queries"] += 1
        self.stats["eq_time"] += time.time() - t0
        res = r == "unsat"
        self._eq_cache[key] = res
        self.keep.extend([a, b])
        return res

    # -- atoms --
    def atom(self, fn, arg, true_fn=None):
        """Value of the transcendental/external function `fn` at S `arg` as an S."""
        arg = S.lift(arg)
        if arg.const is not None and fn in ("log", "sqrt"):
            c = arg.const
            if fn == "log" and c == 1:
                return S.lift(0)
            if fn == "sqrt":
                r = _exact_sqrt(c)
                if r is not None:
                    return S.lift(r)
        st = z3.simplify(arg.t, som=True)
        at = self.atom_by_id.get((fn, st.get_id()))
        cands = self.atom_by_w.setdefault((fn, arg.w), [])
        if at is None:
            for c in cands:
                if self.proves_equal(c.arg, st):
                    at = c
                    break
        if at is None:
            name = f"{fn}@{len(self.atoms)}"
            at = Atom(fn, st, z3.Real(name), arg.w, name)
            self.atoms[name] = at
            self.stats["atoms"] += 1
            self._atom_facts(at, arg)
        if at not in cands:
            cands.append(at)
        self.atom_by_id[(fn, st.get_id())] = at
        self.keep.append(st)
        f = true_fn or TRUE_FN.get(fn)
        try:
            w = tofrac(f(float(arg.w))) if f is not None else Fr(self.rng.randint(-2000, 2000), 997)
        except (ValueError, NotEncodable, ZeroDivisionError, OverflowError):
            w = Fr(0)
        return S(at.var, w)

    def atom_n(self, fn, args, true_fn=None):
        """Uninterpreted function of several S arguments (external libraries)."""
        args = [S.lift(a) for a in args]
        sts = [z3.simplify(a.t, som=True) for a in args]
        wkey = (fn, tuple(a.w for a in args))
        cands = self.atom_by_w.setdefault(wkey, [])
        at = None
        for c in cands:
            if all(x.get_id() == y.get_id() or self.proves_equal(x, y) for x, y in zip(c.args, sts)):
                at = c
                break
        if at is None:
            name = f"{fn}@{len(self.atoms)}"
            at = Atom(fn, None, z3.Real(name), None, name, args=sts)
            self.atoms[name] = at
            cands.append(at)
            self.stats["atoms"] += 1
        if true_fn is not None:
            try:
                w = tofrac(true_fn(*[float(a.w) for a in args]))
            except Exception:  # noqa
                w = Fr(self.rng.randint(-2000, 2000), 997)
        else:
            # deterministic pseudo-value per atom (an arbitrary function of its identity)
            h = random.Random(hash((at.name, tuple(a.w for a in args))))
            w = Fr(h.randint(-3000, 3000), 1009)
        return S(at.var, w)

    def ufun(self, name, args):
        """Application of a genuinely uninterpreted function (solver-side congruence): formal
        structure functions F(x), PDFs f(pid, x, mu2), ..."""
        args = [S.lift(a) for a in args]
        if not hasattr(self, "_ufuns"):
            self._ufuns = {}
        key = (name, len(args))
        if key not in self._ufuns:
            self._ufuns[key] = z3.Function(name, *([z3.RealSort()] * (len(args) + 1)))
        f = self._ufuns[key]
        return S(f(*[a.t for a in args]), tofrac(ufun_witness(name, [float(a.w) for a in args])))

    def _atom_facts(self, at, arg):
        v = at.var
        if at.fn == "sqrt":
            self.atom_facts.append(v >= 0)
            self.atom_facts.append(v * v == at.arg)
        elif at.fn == "li2":
            # Euler's reflection formula between two dilogarithm atoms whose arguments add up to one (sound; the
            # constant is the zeta2 float the code itself uses, read exactly): Li2(u) + Li2(1-u) = zeta2 - ln u ln(1-u)
            # special values (sound): Li2(0) = 0, Li2(1) = zeta2
            self.atom_facts.append(z3.Implies(at.arg == 0, v == 0))
            self.atom_facts.append(z3.Implies(at.arg == 1, v == zval(zeta2_q())))
            if getattr(self, "li2_reflection", True):
                for o in list(self.atoms.values()):
                    if o.fn == "li2" and o is not at and o.arg is not None and at.argw + o.argw == 1:
                        if self.proves_equal(at.arg + o.arg, z3.RealVal(1)):
                            lu = sym_log(S(at.arg, at.argw))
                            lw = sym_log(S(o.arg, o.argw))
                            self.atom_facts.append(v + o.var == zval(zeta2_q()) - lu.t * lw.t)
        elif at.fn == "log":
            # sound a-priori facts: sign of log follows the position of arg w.r.t. 1,
            # and log u <= u - 1 (used only when a harness asks for facts)
            self.atom_facts.append(z3.Implies(at.arg < 1, v < 0))
            self.atom_facts.append(z3.Implies(at.arg > 1, v > 0))
            self.atom_facts.append(z3.Implies(at.arg == 1, v == 0))
            if getattr(self, "log_monotone", False):
                # strict monotonicity between every pair of log atoms (sound; switched on by harnesses that order logs)
                for o in self.atoms.values():
                    if o.fn == "log" and o is not at:
                        self.atom_facts.append(z3.Implies(o.arg < at.arg, o.var < v))
                        self.atom_facts.append(z3.Implies(o.arg > at.arg, o.var > v))
                        self.atom_facts.append(z3.Implies(o.arg == at.arg, o.var == v))

    # -- obligations (definedness) --
    def oblige(self, kind, cond):
        if not self.track_defined:
            return
        ex = self.explorer
        pc = tuple(ex.pc) if ex is not None else ()
        key = (kind, cond.get_id(), tuple(p.get_id() for p in pc))
        if key in self._obl_seen:
            return
        self._obl_seen.add(key)
        self.keep.append(cond)
        self.obligations.append((kind, cond, pc))

    def facts(self):
        return list(self.domain) + list(self.atom_facts)


def ufun_witness(name, float_args):
    """the pseudo-value an uninterpreted function takes at a witness point (shared with float re-runs of a harness)"""
    h = random.Random(hash((name, tuple(round(float(a), 9) for a in float_args))))
    return h.randint(-3000, 3000) / 1009.0


def _exact_sqrt(c):
    if c < 0:
        return None
    n, d = c.numerator, c.denominator
    rn, rd = math.isqrt(n), math.isqrt(d)
    if rn * rn == n and rd * rd == d:
        return Fr(rn, rd)
    return None


_GC_LAST = [0.0]


def main_thread_gc(min_interval=2.0):
    """z3 is not thread-safe and its Python objects release their ASTs in __del__.  The cyclic garbage collector may run in ANY thread (yadism's
    Runner starts a rich.live thread; the watchdog is one), and a Z3_dec_ref from there while the main thread is inside z3 crashed two shards of a
    thorough C20 run (SIGSEGV in Z3_dec_ref).  The driver therefore disables the automatic collector in shard processes and collects here, in the
    main thread, between cells."""
    import gc
    import threading
    import time

    if gc.isenabled() or threading.current_thread() is not threading.main_thread():
        return
    now = time.time()
    if now - _GC_LAST[0] >= min_interval:
        gc.collect()
        _GC_LAST[0] = time.time()


def _is_num(o):
    return isinstance(o, (numbers.Real, np.number, Fr)) and not isinstance(o, (S,))


class S:
    """Symbolic real: z3 term `t`, rational witness `w`, `const` if it is a literal."""

    __array_priority__ = 1000
    __slots__ = ("t", "w", "const")

    def __init__(self, t, w, const=None):
        self.t, self.w, self.const = t, w, const

    @staticmethod
    def lift(o):
        if isinstance(o, S):
            return o
        if isinstance(o, (Dual, Env)):
            raise NotEncodable("Dual/Env met S.lift")
        if isinstance(o, np.ndarray) and o.ndim == 0:
            o = o.item()
            if isinstance(o, S):
                return o
        fr = tofrac(o)
        return S(zval(fr), fr, fr)

    # ---- arithmetic ----
    def _bin(self, o, op, swap=False):
        if isinstance(o, np.ndarray):
            f = np.frompyfunc(lambda e: self._bin(e, op, swap), 1, 1)
            return f(o)
        if isinstance(o, (Dual, Env)):
            return NotImplemented
        if not isinstance(o, S):
            if not _is_num(o):
                return NotImplemented
            if isinstance(o, (float, np.floating)) and math.isinf(o):
                return _ext_real(self, float(o), op, swap)
            o = S.lift(o)
        a, b = (o, self) if swap else (self, o)
        return _arith(a, b, op)

    def __add__(s, o):
        return s._bin(o, "+")

    def __radd__(s, o):
        return s._bin(o, "+", True)

    def __sub__(s, o):
        return s._bin(o, "-")

    def __rsub__(s, o):
        return s._bin(o, "-", True)

    def __mul__(s, o):
        return s._bin(o, "*")

    def __rmul__(s, o):
        return s._bin(o, "*", True)

    def __truediv__(s, o):
        return s._bin(o, "/")

    def __rtruediv__(s, o):
        return s._bin(o, "/", True)

    def __neg__(s):
        if s.const is not None:
            return S.lift(-s.const)
        return S(-s.t, -s.w)

    def __pos__(s):
        return s

    def __abs__(s):
        if s.const is not None:
            return S.lift(abs(s.const))
        return s if bool(s >= 0) else -s

    def __pow__(s, n):
        if isinstance(n, S):
            if n.const is None:
                raise NotEncodable("symbolic exponent")
            n = n.const
        nf = tofrac(n)
        if nf.denominator == 2:
            r = s.sqrt()
            return r ** int(nf.numerator)
        if nf.denominator != 1:
            raise NotEncodable(f"non-integer power {n}")
        n = int(nf)
        if n == 0:
            return S.lift(1)
        r = s
        for _ in range(abs(n) - 1):
            r = r * s
        return r if n > 0 else 1 / r

    def __rpow__(s, base):
        raise NotEncodable("symbolic exponent")

    # ---- comparisons ----
    def _cmp(s, o, op):
        if isinstance(o, np.ndarray):
            f = np.frompyfunc(lambda e: s._cmp(e, op), 1, 1)
            return f(o)
        if isinstance(o, Dual):
            o = o.v
        if isinstance(o, Env):
            o = o.v
        if not isinstance(o, S):
            if o is None or isinstance(o, (str, tuple, list, dict)):
                return NotImplemented
            if isinstance(o, float) and (o in (math.inf, -math.inf)):
                # extended reals: every real is < +inf and > -inf
                pos = o > 0
                return {"<": pos, "<=": pos, ">": not pos, ">=": not pos, "==": False, "!=": True}[op]
            if not _is_num(o):
                return NotImplemented
            o = S.lift(o)
        wv = _CMPW[op](s.w, o.w)
        if s.const is not None and o.const is not None:
            return wv
        return SBool(_CMPT[op](s.t, o.t), wv)

    def __lt__(s, o):
        return s._cmp(o, "<")

    def __le__(s, o):
        return s._cmp(o, "<=")

    def __gt__(s, o):
        return s._cmp(o, ">")

    def __ge__(s, o):
        return s._cmp(o, ">=")

    def __eq__(s, o):
        return s._cmp(o, "==")

    def __ne__(s, o):
        return s._cmp(o, "!=")

    def __hash__(s):
        if s.const is not None:
            return hash(s.const)
        return 0

    def __bool__(s):
        return bool(s != 0)

    # ---- no silent concretisation ----
    def __float__(s):
        if s.const is not None and cur_allows_const_float():
            return float(s.const)
        raise Concretised("symbolic value reached float()")

    def __int__(s):
        if s.const is not None and s.const.denominator == 1:
            return int(s.const)
        raise Concretised("symbolic value reached int()")

    def __index__(s):
        raise Concretised("symbolic value used as index")

    # ---- functions numpy dispatches to for object dtype ----
    def log(s):
        return sym_log(s)

    def sqrt(s):
        return sym_sqrt(s)

    def li2(s):
        return sym_li2(s)

    def exp(s):
        raise NotEncodable("exp of a symbolic value")

    def conjugate(s):
        return s

    @property
    def real(s):
        return s

    @property
    def imag(s):
        return 0

    def __repr__(s):
        if s.const is not None:
            return f"S({s.const})"
        return f"S(~{float(s.w):.5g})"

    def __format__(s, spec):
        # logging / f-strings in the code under check: formatting is not the subject, never concretise
        return repr(s)


import operator as _op

# code under check asks isinstance(value, numbers.Number) (ESFResult.apply_pdf, Kernel.__rmul__): proxies are numbers
numbers.Number.register(S)

_CMPW = {"<": _op.lt, "<=": _op.le, ">": _op.gt, ">=": _op.ge, "==": _op.eq, "!=": _op.ne}
_CMPT = {
    "<": lambda a, b: a < b,
    "<=": lambda a, b: a <= b,
    ">": lambda a, b: a > b,
    ">=": lambda a, b: a >= b,
    "==": lambda a, b: a == b,
    "!=": lambda a, b: a != b,
}

_ALLOW_CONST_FLOAT = [True]


def cur_allows_const_float():
    return _ALLOW_CONST_FLOAT[0]


def _arith(a, b, op):
    ac, bc = a.const, b.const
    if ac is not None and bc is not None:
        if op == "+":
            return S.lift(ac + bc)
        if op == "-":
            return S.lift(ac - bc)
        if op == "*":
            return S.lift(ac * bc)
        if bc == 0:
            raise ZeroDivisionError("division by zero (literal)")
        return S.lift(ac / bc)
    if op == "+":
        if ac == 0:
            return b
        if bc == 0:
            return a
        return S(a.t + b.t, a.w + b.w)
    if op == "-":
        if bc == 0:
            return a
        if ac == 0:
            return S(-b.t, -b.w)
        return S(a.t - b.t, a.w - b.w)
    if op == "*":
        if ac is not None:
            if ac == 0:
                return a
            if ac == 1:
                return b
        if bc is not None:
            if bc == 0:
                return b
            if bc == 1:
                return a
        return S(a.t * b.t, a.w * b.w)
    # division
    if bc is not None:
        if bc == 0:
            raise ZeroDivisionError("division by zero (literal)")
        if bc == 1:
            return a
        return S(a.t * zval(1 / bc), a.w / bc)
    c = _CUR[0]
    if c is not None:
        c.oblige("div", b.t != 0)
    if b.w == 0:
        # witness sits on a pole: move on with a harmless witness (value is never used in claims)
        return S(a.t / b.t, Fr(0))
    if ac == 0:
        return a
    return S(a.t / b.t, a.w / b.w)


def _ext_real(s, inf, op, swap):
    """arithmetic of a symbolic real with +-inf (kThr = np.inf): extended reals, sign decided as a branch."""
    if op == "+":
        return inf
    if op == "-":
        return inf if swap else -inf
    if op == "*":
        if s.const is not None:
            if s.const == 0:
                return float("nan")
            return inf if s.const > 0 else -inf
        if bool(s > 0):
            return inf
        if bool(s < 0):
            return -inf
        return float("nan")
    # division
    if not swap:
        return S.lift(0)  # s / inf
    if bool(s > 0):
        return inf
    if bool(s < 0):
        return -inf
    return float("nan")


class SBool:
    """Symbolic truth value; bool() asks the explorer."""

    __slots__ = ("t", "w")

    def __init__(self, t, w):
        self.t, self.w = t, bool(w)

    def __bool__(self):
        c = _CUR[0]
        if c is None or c.explorer is None:
            return self.w
        return c.explorer.decide(self.t, self.w)

    def __and__(s, o):
        if isinstance(o, SBool):
            return SBool(z3.And(s.t, o.t), s.w and o.w)
        return s if o else False

    __rand__ = __and__

    def __or__(s, o):
        if isinstance(o, SBool):
            return SBool(z3.Or(s.t, o.t), s.w or o.w)
        return True if o else s

    __ror__ = __or__

    def __invert__(s):
        return SBool(z3.Not(s.t), not s.w)

    def __eq__(s, o):
        return bool(s) == bool(o)

    def __hash__(s):
        return 1

    def __repr__(s):
        return f"SBool(~{s.w})"


# ---------------------------------------------------------------------------
# transcendental functions as atoms, log splitting
# ---------------------------------------------------------------------------


def _split_factors(t, depth=0):
    """Structural factorisation of a z3 term into (factor term, integer exponent)."""
    k = t.decl().kind()
    if k == z3.Z3_OP_MUL:
        out = []
        for ch in t.children():
            out += _split_factors(ch, depth + 1)
        return out
    if k == z3.Z3_OP_DIV:
        a, b = t.children()
        return _split_factors(a, depth + 1) + [(f, -e) for f, e in _split_factors(b, depth + 1)]
    if k == z3.Z3_OP_UMINUS:
        (a,) = t.children()
        return [(z3.RealVal(-1), 1)] + _split_factors(a, depth + 1)
    if k == z3.Z3_OP_POWER:
        a, b = t.children()
        if z3.is_rational_value(b) and b.denominator_as_long() == 1:
            return [(f, e * b.numerator_as_long()) for f, e in _split_factors(a, depth + 1)]
    return [(t, 1)]


def _eval_w(t, ctx):
    """Witness value of a z3 term built from ctx variables/atoms (exact rational evaluation)."""
    subs = []
    for n, (v, _, _) in ctx.vars.items():
        if n in ctx.assign:
            subs.append((v, zval(ctx.assign[n])))
    r = z3.simplify(z3.substitute(t, *subs)) if subs else z3.simplify(t)
    if z3.is_rational_value(r):
        return Fr(r.numerator_as_long(), r.denominator_as_long())
    return None


def sym_log(s):
    s = S.lift(s)
    c = cur()
    if s.const is not None:
        if s.const <= 0:
            raise ValueError("math domain error (log of non-positive literal)")
        if s.const == 1:
            return S.lift(0)
        return c.atom("log", s)
    c.oblige("log", s.t > 0)
    parts = _split_factors(s.t)
    if len(parts) == 1:
        # 1-(1-A) and the like: let z3 normalise once, then look for a product again
        parts = _split_factors(z3.simplify(s.t))
    if len(parts) == 1:
        return c.atom("log", s)
    # evaluate every factor's witness; split only if all non-constant factors are positive there
    facs = []
    sign = 1
    for f, e in parts:
        if z3.is_rational_value(f):
            fr = Fr(f.numerator_as_long(), f.denominator_as_long())
            if fr < 0:
                sign *= -1 if e % 2 else 1
                fr = -fr
            if fr == 0:
                return c.atom("log", s)
            if fr != 1:
                facs.append((S.lift(fr), e))
            continue
        w = _eval_w(f, c)
        if w is None:
            # factor contains atoms: recover the witness through a cached table if possible
            w = _term_witness(f, c)
        if w is None or w <= 0:
            return c.atom("log", s)
        facs.append((S(f, w), e))
    if sign < 0:
        return c.atom("log", s)
    res = S.lift(0)
    for f, e in facs:
        if f.const is None:
            # the split log(a*b)=log a+log b needs every factor positive: obligation
            c.oblige("logsplit", f.t > 0)
        res = res + e * c.atom("log", f)
    return res


def _term_witness(t, c):
    # evaluate a term that contains atom variables: substitute atoms by their witnesses
    subs = []
    for n, (v, _, _) in c.vars.items():
        if n in c.assign:
            subs.append((v, zval(c.assign[n])))
    for at in c.atoms.values():
        w = None
        if at.arg is not None:
            aw = _eval_w(at.arg, c)
            f = TRUE_FN.get(at.fn)
            if aw is not None and f is not None:
                try:
                    w = tofrac(f(float(aw)))
                except Exception:  # noqa
                    w = None
        if w is not None:
            subs.append((at.var, zval(w)))
    r = z3.simplify(z3.substitute(t, *subs))
    if z3.is_rational_value(r):
        return Fr(r.numerator_as_long(), r.denominator_as_long())
    return None


def sym_sqrt(s):
    s = S.lift(s)
    c = cur()
    if s.const is not None:
        if s.const < 0:
            raise ValueError("math domain error (sqrt of negative literal)")
        r = _exact_sqrt(s.const)
        if r is not None:
            return S.lift(r)
    else:
        c.oblige("sqrt", s.t >= 0)
        # sqrt of a perfect square of a variable: sqrt(v^2) = v when the domain says v >= 0
        r = _exact_sqrt(s.w) if s.w >= 0 else None
        if r is not None:
            for n, (v, lo, hi) in c.vars.items():
                if c.assign.get(n) == r and lo is not None and tofrac(lo) >= 0:
                    if c.proves_equal(s.t, v * v):
                        return S(v, r)
    return c.atom("sqrt", s)


def sym_li2(s):
    s = S.lift(s)
    if s.const is not None and s.const == 0:
        return S.lift(0)
    return cur().atom("li2", s)


# ---------------------------------------------------------------------------
# forward-mode derivatives
# ---------------------------------------------------------------------------


def _scalar_type(*objs):
    for o in objs:
        if isinstance(o, Env):
            return Env
    return S


class Dual:
    """v + d*eps; components are S (exact) or Env (exact value + triangle-inequality magnitude)."""

    __array_priority__ = 1001
    __slots__ = ("v", "d")

    def __init__(self, v, d):
        T = _scalar_type(v, d)
        self.v, self.d = T.lift(v), T.lift(d)

    @staticmethod
    def _ok(o):
        return isinstance(o, (Dual, S, Env)) or _is_num(o)

    def _lift(self, o):
        if isinstance(o, Dual):
            return o
        T = type(self.v)
        return Dual(T.lift(o), T.lift(0))

    def _map(self, o, fn):
        f = np.frompyfunc(lambda e: fn(self, e), 1, 1)
        return f(o)

    def __add__(s, o):
        if isinstance(o, np.ndarray):
            return s._map(o, lambda a, b: a + b)
        if not Dual._ok(o):
            return NotImplemented
        o = s._lift(o)
        return Dual(s.v + o.v, s.d + o.d)

    __radd__ = __add__

    def __sub__(s, o):
        if isinstance(o, np.ndarray):
            return s._map(o, lambda a, b: a - b)
        if not Dual._ok(o):
            return NotImplemented
        o = s._lift(o)
        return Dual(s.v - o.v, s.d - o.d)

    def __rsub__(s, o):
        if isinstance(o, np.ndarray):
            return s._map(o, lambda a, b: b - a)
        if not Dual._ok(o):
            return NotImplemented
        o = s._lift(o)
        return Dual(o.v - s.v, o.d - s.d)

    def __mul__(s, o):
        if isinstance(o, np.ndarray):
            return s._map(o, lambda a, b: a * b)
        if not Dual._ok(o):
            return NotImplemented
        o = s._lift(o)
        return Dual(s.v * o.v, s.d * o.v + s.v * o.d)

    __rmul__ = __mul__

    def __truediv__(s, o):
        if isinstance(o, np.ndarray):
            return s._map(o, lambda a, b: a / b)
        if not Dual._ok(o):
            return NotImplemented
        o = s._lift(o)
        return Dual(s.v / o.v, (s.d * o.v - s.v * o.d) / (o.v * o.v))

    def __rtruediv__(s, o):
        if isinstance(o, np.ndarray):
            return s._map(o, lambda a, b: b / a)
        if not Dual._ok(o):
            return NotImplemented
        return s._lift(o) / s

    def __neg__(s):
        return Dual(-s.v, -s.d)

    def __pos__(s):
        return s

    def __pow__(s, n):
        if isinstance(n, Dual):
            n = n.v
        if isinstance(n, Env):
            n = n.v
        if isinstance(n, S):
            if n.const is None:
                raise NotEncodable("symbolic exponent")
            n = n.const
        nf = tofrac(n)
        if nf.denominator == 2:
            return s.sqrt() ** int(nf.numerator)
        if nf.denominator != 1:
            raise NotEncodable(f"non-integer power {n}")
        n = int(nf)
        r = s._lift(1)
        for _ in range(abs(n)):
            r = r * s
        return r if n >= 0 else 1 / r

    def log(s):
        return Dual(s.v.log(), s.d / s.v)

    def sqrt(s):
        r = s.v.sqrt()
        return Dual(r, s.d / (2 * r))

    def li2(s):
        # d/du Li2(u) = -ln(1-u)/u
        return Dual(s.v.li2(), -((1 - s.v).log()) / s.v * s.d)

    def _cmp(s, o, op):
        o = o.v if isinstance(o, Dual) else o
        return s.v._cmp(o, op)

    def __lt__(s, o):
        return s._cmp(o, "<")

    def __le__(s, o):
        return s._cmp(o, "<=")

    def __gt__(s, o):
        return s._cmp(o, ">")

    def __ge__(s, o):
        return s._cmp(o, ">=")

    def __eq__(s, o):
        return s._cmp(o, "==")

    def __ne__(s, o):
        return s._cmp(o, "!=")

    def __hash__(s):
        return 2

    def __float__(s):
        raise Concretised("dual value reached float()")

    def __repr__(s):
        return f"Dual({s.v!r},{s.d!r})"


def abs_s(s):
    s = S.lift(s)
    if s.const is not None:
        return S.lift(abs(s.const))
    return S(z3.If(s.t >= 0, s.t, -s.t), abs(s.w))


class Env:
    """Exact value v together with the triangle-inequality magnitude m of the same expression
    (every + and - adds magnitudes, * multiplies them): the 'envelope' used for tolerances."""

    __array_priority__ = 1000
    __slots__ = ("v", "m")

    def __init__(self, v, m):
        self.v, self.m = v, m

    @staticmethod
    def lift(o):
        if isinstance(o, Env):
            return o
        s = S.lift(o)
        return Env(s, abs_s(s))

    @staticmethod
    def _ok(o):
        return isinstance(o, (Env, S)) or _is_num(o)

    def _map(self, o, fn):
        return np.frompyfunc(lambda e: fn(self, e), 1, 1)(o)

    def __add__(s, o):
        if isinstance(o, np.ndarray):
            return s._map(o, lambda a, b: a + b)
        if not Env._ok(o):
            return NotImplemented
        o = Env.lift(o)
        return Env(s.v + o.v, s.m + o.m)

    __radd__ = __add__

    def __sub__(s, o):
        if isinstance(o, np.ndarray):
            return s._map(o, lambda a, b: a - b)
        if not Env._ok(o):
            return NotImplemented
        o = Env.lift(o)
        return Env(s.v - o.v, s.m + o.m)

    def __rsub__(s, o):
        if isinstance(o, np.ndarray):
            return s._map(o, lambda a, b: b - a)
        if not Env._ok(o):
            return NotImplemented
        o = Env.lift(o)
        return Env(o.v - s.v, s.m + o.m)

    def __mul__(s, o):
        if isinstance(o, np.ndarray):
            return s._map(o, lambda a, b: a * b)
        if not Env._ok(o):
            return NotImplemented
        o = Env.lift(o)
        return Env(s.v * o.v, s.m * o.m)

    __rmul__ = __mul__

    def __truediv__(s, o):
        if isinstance(o, np.ndarray):
            return s._map(o, lambda a, b: a / b)
        if not Env._ok(o):
            return NotImplemented
        o = Env.lift(o)
        return Env(s.v / o.v, s.m / abs_s(o.v))

    def __rtruediv__(s, o):
        if isinstance(o, np.ndarray):
            return s._map(o, lambda a, b: b / a)
        if not Env._ok(o):
            return NotImplemented
        return Env.lift(o) / s

    def __neg__(s):
        return Env(-s.v, s.m)

    def __pos__(s):
        return s

    def __pow__(s, n):
        if isinstance(n, (S, Env)):
            n = n.v if isinstance(n, Env) else n
            if n.const is None:
                raise NotEncodable("symbolic exponent")
            n = n.const
        nf = tofrac(n)
        if nf.denominator == 2:
            return s.sqrt() ** int(nf.numerator)
        if nf.denominator != 1:
            raise NotEncodable(f"non-integer power {n}")
        n = int(nf)
        r = Env.lift(1)
        for _ in range(abs(n)):
            r = r * s
        return r if n >= 0 else 1 / r

    def log(s):
        return Env.lift(sym_log(s.v))

    def sqrt(s):
        return Env.lift(sym_sqrt(s.v))

    def li2(s):
        return Env.lift(sym_li2(s.v))

    def _cmp(s, o, op):
        o = o.v if isinstance(o, (Env,)) else o
        return s.v._cmp(o, op)

    def __lt__(s, o):
        return s._cmp(o, "<")

    def __le__(s, o):
        return s._cmp(o, "<=")

    def __gt__(s, o):
        return s._cmp(o, ">")

    def __ge__(s, o):
        return s._cmp(o, ">=")

    def __eq__(s, o):
        return s._cmp(o, "==")

    def __ne__(s, o):
        return s._cmp(o, "!=")

    def __hash__(s):
        return 3

    def __float__(s):
        raise Concretised("envelope value reached float()")

    def __repr__(s):
        return f"Env({s.v!r},|{s.m!r}|)"


class C:
    """complex number whose parts are proxies (S, Dual, Env) or plain numbers; only what the coefficient functions use:
    complex literals times real logs, complex polylogarithms above their cut, and a final `.real`."""

    __array_priority__ = 1002
    __slots__ = ("re", "im")

    def __init__(self, re, im):
        self.re, self.im = re, im

    @staticmethod
    def lift(o):
        if isinstance(o, C):
            return o
        if isinstance(o, complex):
            return C(o.real, o.imag)
        return C(o, 0)

    @property
    def real(self):
        return self.re

    @property
    def imag(self):
        return self.im

    def __add__(s, o):
        o = C.lift(o)
        return C(s.re + o.re, s.im + o.im)

    __radd__ = __add__

    def __sub__(s, o):
        o = C.lift(o)
        return C(s.re - o.re, s.im - o.im)

    def __rsub__(s, o):
        o = C.lift(o)
        return C(o.re - s.re, o.im - s.im)

    def __mul__(s, o):
        o = C.lift(o)
        return C(s.re * o.re - s.im * o.im, s.re * o.im + s.im * o.re)

    __rmul__ = __mul__

    def __truediv__(s, o):
        o = C.lift(o)
        den = o.re * o.re + o.im * o.im
        return C((s.re * o.re + s.im * o.im) / den, (s.im * o.re - s.re * o.im) / den)

    def __rtruediv__(s, o):
        return C.lift(o) / s

    def __neg__(s):
        return C(-s.re, -s.im)

    def __pow__(s, n):
        n = int(n)
        r = C(1, 0)
        for _ in range(abs(n)):
            r = r * s
        return r if n >= 0 else C(1, 0) / r

    def log(s):
        """principal logarithm of a complex number on the real axis (im == 0): ln|re| + i*pi for re < 0 (numpy's branch for -x+0j)"""
        im = s.im.const if isinstance(s.im, S) else s.im
        if im is None or im != 0:
            raise NotEncodable("complex logarithm off the real axis")
        if bool(s.re > 0):
            return C(np.log(s.re) if not isinstance(s.re, S) else s.re.log(), 0)
        neg = -s.re
        return C(np.log(neg) if not isinstance(neg, S) else neg.log(), pi_q())

    def __repr__(s):
        return f"C({s.re!r}, {s.im!r})"


def _intercept_complex(cls):
    """let S/Dual/Env meet Python complex literals and C values"""
    for name, cname in (("__add__", "__radd__"), ("__radd__", "__add__"), ("__sub__", "__rsub__"), ("__rsub__", "__sub__"),
                        ("__mul__", "__rmul__"), ("__rmul__", "__mul__"), ("__truediv__", "__rtruediv__"), ("__rtruediv__", "__truediv__")):
        orig = getattr(cls, name)

        def wrapped(self, o, _orig=orig, _cname=cname):
            if isinstance(o, (complex, C)):
                return getattr(C.lift(o), _cname)(self)
            return _orig(self, o)

        setattr(cls, name, wrapped)


for _cls in (S, Dual, Env):
    _intercept_complex(_cls)

PI2_3 = tofrac(math.pi ** 2 / 3)
PI_F = tofrac(math.pi)


def li2_real(x):
    """Re Li2(x) for real x, as special.li2 returns it: above the cut Re Li2(x) = pi^2/3 - ln^2(x)/2 - Li2(1/x)"""
    if bool(x > 1):
        lg = x.log()
        return pi2_3_q() - lg * lg / 2 - (1 / x).li2()
    return x.li2()


def li3(x):
    """Li3 = S_{2,1}; complex above the cut (as special.nielsen returns it): Re = Li3(1/x) + pi^2/3 ln x - ln^3 x/6, Im = -pi/2 ln^2 x"""
    if bool(x > 1):
        lg = x.log()
        return C(_li3_atom(1 / x) + pi2_3_q() * lg - lg * lg * lg / 6, -(pi_q() / 2) * lg * lg)
    return _li3_atom(x)


def _li3_atom(x):
    if isinstance(x, Dual):
        v = _li3_atom(x.v)
        return Dual(v, li2_real(x.v) / x.v * x.d)
    if isinstance(x, Env):
        return Env.lift(_li3_atom(x.v))
    x = S.lift(x)
    from yadism.coefficient_functions.special.nielsen import nielsen as _n

    return cur().atom("li3", x, true_fn=lambda a: float(_n(2, 1, a).real))


def li2(x):
    """Stub for special.li2 (real part of Li2, also above the cut)."""
    if isinstance(x, (Dual, Env, S)):
        return li2_real(x)
    return sym_li2(x)


def spence(z):
    """Stub for scipy.special.spence: spence(z) = Li2(1-z)."""
    if isinstance(z, (Dual, Env, S)):
        return (1 - z).li2()
    return sym_li2(1 - S.lift(z))


def is_sym(o):
    return isinstance(o, (S, Dual, SBool, Env))


def eval_term(t, ctx, atom_values=None):
    """Evaluate a z3 term at the current witness point (atoms at given/true values)."""
    return _term_witness(t, ctx)
