"""Discharging obligations with z3 (and cross-checking with cvc5 / the system z3)."""

import os
import subprocess
import tempfile
import time

import z3

from . import explore, watchdog


class Verdict:
    __slots__ = ("status", "model", "secs", "label", "smt2")

    def __init__(self, status, model, secs, label, smt2=None):
        self.status, self.model, self.secs, self.label, self.smt2 = status, model, secs, label, smt2

    @property
    def proved(self):
        return self.status == "unsat"

    def __repr__(self):
        return f"Verdict({self.label}: {self.status}, {self.secs:.3f}s)"


class Prover:
    """Collects every query, its verdict and time (for the evidence file)."""

    def __init__(self, timeout_ms=60000, cross=False, keep_samples=4):
        self.timeout_ms = timeout_ms
        self.cross = cross
        self.queries = 0
        self.unsat = 0
        self.sat = 0
        self.unknown = 0
        self.secs = 0.0
        self.samples = []
        self.keep_samples = keep_samples
        self.cross_checked = 0
        self.cross_disagree = []
        self.log = []
        # second opinions are bounded: at most VERIF_CROSS_BUDGET_S seconds per process and never more than a third of the
        # elapsed run time (so they are spread over the whole run instead of exhausting the budget on the first cells)
        self.cross_budget_s = float(os.environ.get("VERIF_CROSS_BUDGET_S", "900"))
        self.cross_secs = 0.0
        self.cross_skipped = 0
        self.t_start = time.time()

    def check(self, conds, label="", want_model=True):
        """sat / unsat / unknown of the conjunction `conds`."""
        # portfolio: default solver (short), nlsat tactic (complete for QF_NRA, fast on polynomial identities with
        # divisions where the default pipeline stalls), default solver (full budget)
        t0 = time.time()
        budget = self.timeout_ms
        r, s = "unknown", None
        for mk, tmo in ((z3.Solver, min(3000, budget)), (lambda: z3.Tactic("qfnra-nlsat").solver(), budget // 2),
                        (z3.Solver, budget)):
            s = mk()
            s.set("timeout", int(max(500, tmo)))
            s.add(*conds)
            try:
                with watchdog.watch(max(500, tmo), label):
                    r = str(s.check())
            except z3.Z3Exception:
                r = "unknown"
            if r in ("sat", "unsat"):
                break
            if (time.time() - t0) * 1000 > budget:
                break
        dt = time.time() - t0
        self.queries += 1
        self.secs += dt
        m = None
        if r == "sat":
            self.sat += 1
            m = s.model() if want_model else None
        elif r == "unsat":
            self.unsat += 1
        else:
            self.unknown += 1
        smt2 = None
        do_cross = False
        if self.cross and r in ("sat", "unsat"):
            do_cross = self.cross_secs < self.cross_budget_s and self.cross_secs <= 0.5 * (time.time() - self.t_start - self.cross_secs) + 5.0
            if not do_cross:
                self.cross_skipped += 1
        if len(self.samples) < self.keep_samples or do_cross:
            try:
                smt2 = s.to_smt2()
            except Exception:  # noqa
                smt2 = None
        if smt2 is not None and len(self.samples) < self.keep_samples and len(smt2) < 6000:
            self.samples.append({"label": label, "verdict": r, "secs": round(dt, 4), "smt2": smt2})
        if do_cross and smt2 is not None:
            tc = time.time()
            with watchdog.watch(25000, "second opinion: " + label):
                self._cross(smt2, r, label)
            self.cross_secs += time.time() - tc
        self.log.append((label, r, round(dt, 4)))
        return Verdict(r, m, dt, label, smt2)

    def prove(self, claim, assumptions=(), label=""):
        """Valid(assumptions => claim)?  unsat of the negation == proved."""
        return self.check(list(assumptions) + [z3.Not(claim)], label)

    # ---- second opinions ----
    def _cross(self, smt2, expect, label):
        self.cross_checked += 1
        if not hasattr(self, "cross_stats"):
            self.cross_stats = {}
        for name, res in (("z3-4.8.12", run_z3_binary(smt2)), ("cvc5-1.4.0", run_cvc5_wheel(smt2))):
            st = self.cross_stats.setdefault(name, {"agree": 0, "inconclusive": 0, "disagree": 0})
            if res in ("sat", "unsat"):
                if res != expect:
                    st["disagree"] += 1
                    self.cross_disagree.append({"label": label, "z3-5.1.0": expect, name: res})
                else:
                    st["agree"] += 1
            else:
                st["inconclusive"] += 1

    def stats(self):
        return {
            "queries": self.queries,
            "unsat": self.unsat,
            "sat": self.sat,
            "unknown": self.unknown,
            "solver_s": round(self.secs, 3),
            "cross_checked": self.cross_checked,
            "cross_skipped_for_budget": self.cross_skipped,
            "cross_check_s": round(self.cross_secs, 1),
            "second_opinions": getattr(self, "cross_stats", {}),
            "cross_disagreements": self.cross_disagree,
        }


def run_z3_binary(smt2, timeout=10):
    try:
        with tempfile.NamedTemporaryFile("w", suffix=".smt2", delete=False, dir="/var/tmp") as f:
            f.write(smt2)
            path = f.name
        try:
            out = subprocess.run(["/usr/bin/z3", f"-T:{timeout}", path], capture_output=True, text=True,
                                 timeout=timeout + 5).stdout
        finally:
            os.unlink(path)
        if "(error" in out:
            return "error"
        first = out.strip().splitlines()[0] if out.strip() else ""
        return first if first in ("sat", "unsat", "unknown") else "unknown"
    except Exception:  # noqa
        return "unknown"


CVC5_SRC = r"""
import sys
import cvc5
smt2 = open(sys.argv[1]).read()
tm = cvc5.TermManager() if hasattr(cvc5, "TermManager") else None
slv = cvc5.Solver(tm) if tm is not None else cvc5.Solver()
slv.setOption("tlimit-per", sys.argv[2])
slv.setLogic("QF_NRA")
parser = cvc5.InputParser(slv)
# z3 prints (set-info ...) and (check-sat); cvc5's parser takes the same text
parser.setStringInput(cvc5.InputLanguage.SMT_LIB_2_6, smt2, "q")
sm = parser.getSymbolManager()
res = None
while True:
    cmd = parser.nextCommand()
    if cmd.isNull():
        break
    o = str(cmd.invoke(slv, sm)).strip()
    if o in ("sat", "unsat", "unknown"):
        res = o
print("RESULT", res or "unknown")
"""


def run_cvc5_wheel(smt2, timeout_ms=10000):
    """cvc5 1.4.0 (the wheel) in a sub-process with a hard kill: its time limit is cooperative too, and the Cython binding keeps
    the GIL while solving, so an in-process call that ignores the limit cannot even be interrupted by the watchdog thread
    (seen: shards of a thorough C03 run spinning for an hour)."""
    import sys

    try:
        with tempfile.NamedTemporaryFile("w", suffix=".smt2", delete=False, dir="/var/tmp") as f:
            f.write(smt2)
            path = f.name
        try:
            out = subprocess.run([sys.executable, "-c", CVC5_SRC, path, str(int(timeout_ms))], capture_output=True, text=True,
                                 timeout=timeout_ms / 1000.0 + 10).stdout
        finally:
            os.unlink(path)
        for ln in out.splitlines():
            if ln.startswith("RESULT "):
                return ln.split()[1]
        return "unknown"
    except Exception:  # noqa  (incl. TimeoutExpired)
        return "unknown"


def model_point(ctx, model):
    """Variables (and atoms) of a counterexample as floats."""
    pt = {}
    asg = explore.model_to_assign(ctx, model)
    for n, fr in asg.items():
        pt[n] = float(fr)
    return pt, asg
