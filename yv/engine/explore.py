"""Path exploration by decision replay (DESIGN §1 'Paths').

The function under check is an ordinary Python callable that uses S proxies.  Every bool() of a
symbolic comparison is a decision.  A run follows a forced prefix and then the witness; after
the run every free decision is flipped if z3 says the flipped path condition is satisfiable.
"""

import fractions
import time

import z3

from . import watchdog

from . import real

Fr = fractions.Fraction


class Abort(BaseException):
    """Prune this path (not an outcome)."""


class BoundHit(BaseException):
    """max_decisions / max_paths reached: the exploration is inconclusive."""


class Path:
    __slots__ = ("pc", "kind", "value", "trace", "assign", "generic", "free", "forced")

    def __init__(self, pc, kind, value, trace, assign, generic, free, forced):
        self.pc, self.kind, self.value, self.trace = pc, kind, value, trace
        self.assign, self.generic, self.free, self.forced = assign, generic, free, forced

    def __repr__(self):
        return f"Path({self.kind}, {len(self.pc)} decisions, value={self.value!r})"


def model_to_assign(ctx, model):
    out = {}
    if model is None:
        return out
    for n, (v, _, _) in ctx.vars.items():
        val = model.eval(v, model_completion=False)
        if val is None or z3.is_const(val) and val.decl().kind() == z3.Z3_OP_UNINTERPRETED:
            continue
        fr = _val_to_frac(val)
        if fr is not None:
            out[n] = fr
    return out


def _val_to_frac(val):
    try:
        if z3.is_rational_value(val):
            return Fr(val.numerator_as_long(), val.denominator_as_long())
        if z3.is_algebraic_value(val):
            ap = val.approx(30)
            return Fr(ap.numerator_as_long(), ap.denominator_as_long())
    except Exception:  # noqa
        return None
    return None


STATS = {"feasibility_queries": 0, "solver_s": 0.0, "runs": 0, "unknown": 0}


class Explorer:
    def __init__(self, ctx, max_paths=512, max_decisions=4096, timeout_ms=5000, extra_facts=()):
        self.ctx = ctx
        self.max_paths = max_paths
        self.max_decisions = max_decisions
        self.timeout_ms = timeout_ms
        self.extra = list(extra_facts)
        self.queries = 0
        self.solver_s = 0.0
        self.unknown = 0
        self.runs = 0
        self.prefix = []
        self.trace = []
        self.pc = []
        self.free = []
        self.generic = []
        self.kinds = []
        self.off_path = False
        self._policy = "fork"
        self._decided = {}
        self.bound_hit = False

    # ---- solver ----
    def _check(self, conds):
        s = z3.Solver()
        s.set("timeout", self.timeout_ms)
        s.add(*self.ctx.facts(), *self.extra, *conds)
        t0 = time.time()
        with watchdog.watch(self.timeout_ms, "path feasibility"):
            r = s.check()
        self.solver_s += time.time() - t0
        self.queries += 1
        STATS["feasibility_queries"] += 1
        STATS["solver_s"] += time.time() - t0
        r = str(r)
        if r == "unknown":
            self.unknown += 1
            STATS["unknown"] += 1
        return r, (s.model() if r == "sat" else None)

    def feasible(self, conds):
        r, _ = self._check(conds)
        return r != "unsat"

    # ---- policies ----
    def policy(self, name):
        ex = self

        class _P:
            def __enter__(self_):
                self_.prev = ex._policy
                ex._policy = name

            def __exit__(self_, *a):
                ex._policy = self_.prev

        return _P()

    # ---- decisions ----
    def decide(self, cond, wv):
        cid = cond.get_id()
        if cid in self._decided:
            return self._decided[cid]
        i = len(self.trace)
        if i >= self.max_decisions:
            self.bound_hit = True
            raise BoundHit(f"more than {self.max_decisions} decisions on one path")
        free = False
        k_ = cond.decl().kind()
        is_zero_test = k_ in (z3.Z3_OP_EQ, z3.Z3_OP_DISTINCT) or (k_ == z3.Z3_OP_NOT and cond.children()[0].decl().kind() == z3.Z3_OP_EQ)
        if self._policy == "generic" and is_zero_test:
            # weight-vs-zero sites: follow the generic point (DESIGN §1 'Decision policies')
            d = self._generic(cond, wv)
        elif i < len(self.prefix):
            d = self.prefix[i]
            if d != wv:
                self.off_path = True
        else:
            free = True
            if not self.off_path:
                d = wv
            else:
                d = True if self.feasible(self.pc + [cond]) else False
        self.trace.append(d)
        self.pc.append(cond if d else z3.Not(cond))
        self.free.append(free)
        self.kinds.append(self._policy)
        self._decided[cid] = d
        self.ctx.keep.append(cond)
        return d

    def _generic(self, cond, wv):
        # cond is `w != 0` or `w == 0` (or their negations); generic side = the one that holds
        # on a dense open set.  The witness is a random point: if the two sides differ there we
        # trust neither blindly -- ask the solver whether the witness side is *identically* true.
        r, _ = self._check(self.pc + [cond if not wv else z3.Not(cond)])
        if r == "unsat":
            # witness side holds everywhere on this path: not an assumption at all
            return wv
        # both sides possible: the side that is an (in)equation decides who is generic
        k = cond.decl().kind()
        is_ne = k == z3.Z3_OP_DISTINCT or (k == z3.Z3_OP_NOT and cond.children()[0].decl().kind() == z3.Z3_OP_EQ)
        is_eq = k == z3.Z3_OP_EQ
        if is_ne:
            d = True
        elif is_eq:
            d = False
        else:
            d = wv
        self.generic.append(cond if d else z3.Not(cond))
        if d != wv:
            self.off_path = True
        return d

    # ---- exploration ----
    def run(self, fn, on_path=None):
        """Explore all feasible paths of fn(); returns list of Path. Raises nothing on bounds:
        check `.bound_hit`."""
        results = []
        stack = [([], None, False)]
        while stack:
            if self.runs >= self.max_paths:
                self.bound_hit = True
                break
            prefix, forced, sf_used = stack.pop()
            real.main_thread_gc()
            self.prefix, self.trace, self.pc, self.free, self.generic, self.kinds = prefix, [], [], [], [], []
            self.off_path = False
            self._decided = {}
            self.ctx.reset_run(forced)
            self.ctx.explorer = self
            self.runs += 1
            STATS["runs"] += 1
            try:
                try:
                    out = ("ok", fn())
                except Abort:
                    out = None
                except BoundHit:
                    out = ("bound", None)
                except Exception as e:  # noqa  (BaseException = steering, not caught)
                    out = ("exc", e)
            finally:
                self.ctx.explorer = None
            if len(self.trace) < len(prefix):
                # the forced prefix was not consumed: path diverged structurally; ignore remainder
                pass
            if out is not None:
                p = Path(list(self.pc), out[0], out[1], list(self.trace), dict(self.ctx.assign),
                         list(self.generic), list(self.free), forced is not None)
                results.append(p)
                if on_path is not None:
                    on_path(p)
            # schedule flips of the free decisions
            pc, trace, free, kinds = list(self.pc), list(self.trace), list(self.free), list(self.kinds)
            for i in range(len(trace) - 1, -1, -1):
                if not free[i]:
                    continue
                if kinds[i] == "single-flip" and sf_used:
                    # tolerance-style zero tests (|w| <= eps): every site is flipped on its own against the witness path, but not in
                    # combination with other such sites (1 + k paths instead of 2^k)
                    continue
                r, m = self._check(pc[:i] + [z3.Not(pc[i])])
                if r == "unsat":
                    continue
                forced_next = model_to_assign(self.ctx, m) if m is not None else {}
                stack.append((trace[:i] + [not trace[i]], forced_next, sf_used or kinds[i] == "single-flip"))
        return results


def explore(ctx, fn, **kw):
    ex = Explorer(ctx, **kw)
    paths = ex.run(fn)
    return ex, paths
