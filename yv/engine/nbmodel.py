"""A model of where numba's nopython semantics leave the interpreter's, for the constructs yadism's kernels use.

The test-suite (and every other check here) runs the kernels with NUMBA_DISABLE_JIT=1, i.e. their Python bodies.  Production
runs the LLVM code numba generates from the *typed* function.  For the 143 kernels (float64 scalars, float64 vectors, a few
integers, module-level constant tables, `range` loops) the two semantics differ in a handful of documented places only:

  sig    the declared signature converts arguments and the return value: anything but f8 / c16 / i8 / f8[:] is lossy
         (f4 rounds to single precision, i4 wraps, ...); an argument declared i8 that receives a non-integer is truncated
  ipow   integer ** negative integer is an *integer* power in typed code (2 ** -1 == 0), a float in the interpreter
  iovf   int64 arithmetic (+ - * **) wraps at 2^63, Python integers do not
  unbnd  a local that is not assigned on the taken path: the interpreter raises UnboundLocalError, compiled code reads an
         uninitialised (zero) slot and returns a value
  raise  any other exception of the Python body on a feasible path of a kernel whose compiled twin does not raise

`instrument()` rewrites the AST of every @njit function of the current source tree so that + - * ** go through a hook that sees
the operands' types (symbolic reals are floats; loop counters and literals are ints), adds an entry/exit hook that records the
call and checks the arguments against the declared signature, and swaps the functions' `__code__` in place (every caller,
also inside other kernels, runs the instrumented body; `restore()` puts the original code back).  The symbolic executor then
runs the kernels over all feasible paths; a divergence event on a feasible path is an obligation that fails, and its replay
compiles the kernel with the JIT *enabled* in a sub-process and compares machine code and interpreter at the witness point.

Outside the model (said, not claimed): LLVM code generation proper (instruction selection, libm vs NumPy transcendental
kernels, FMA contraction -- numba keeps fastmath off, so these are rounding-level), caching of stale machine code on disk.
"""

import ast
import importlib
import inspect
import pkgutil
import sys
import textwrap

import numpy as np

EVENTS = []
_STACK = []
_SAVED = {}
INFO = {}  # (module, name) -> dict(sig=..., lineno=..., entered=0)
LOSSLESS = {"f8", "c16", "i8", "f8[:]", "b1"}


def _is_int(v):
    return isinstance(v, (int, np.integer)) and not isinstance(v, (bool, np.bool_))


def _num(v):
    """float witness of a value for the replay (S carries .w)"""
    w = getattr(v, "w", None)
    if w is not None:
        return float(w)
    if hasattr(v, "re") and hasattr(v, "im"):
        return complex(_num(v.re), _num(v.im))
    if isinstance(v, (list, tuple, np.ndarray)) or hasattr(v, "_v"):
        return [_num(e) for e in (v._v if hasattr(v, "_v") else v)]
    try:
        return int(v) if _is_int(v) else float(v)
    except Exception:  # noqa
        return repr(v)


def event(kind, detail):
    top = _STACK[-1] if _STACK else (("?", "?"), ())
    EVENTS.append(dict(kind=kind, module=top[0][0], func=top[0][1], detail=detail, args=[_num(a) for a in top[1]]))


def _op(op, a, b, line):
    if _is_int(a) and _is_int(b):
        if op == "**":
            if b < 0 and abs(int(a)) != 1:  # (+-1) ** -n has the same value in both semantics
                event("ipow", f"line {line}: {int(a)} ** {int(b)} is an integer power in typed code, the float {float(a) ** int(b)!r} in the interpreter")
                return a ** b
            r = int(a) ** int(b)
        elif op == "*":
            r = int(a) * int(b)
        elif op == "+":
            r = int(a) + int(b)
        else:
            r = int(a) - int(b)
        if not -2 ** 63 <= r < 2 ** 63:
            event("iovf", f"line {line}: {int(a)} {op} {int(b)} leaves the int64 range")
    if op == "**":
        return a ** b
    if op == "*":
        return a * b
    if op == "+":
        return a + b
    return a - b


def _enter(key, args):
    _STACK.append((key, args))
    info = INFO[key]
    info["entered"] += 1
    sig = info["sig"]
    if sig is None:
        return
    for t, v in zip(sig[1], args):
        if t == "i8" and not _is_int(v):
            event("sig", f"argument declared i8 receives the non-integer {_num(v)!r} (truncated by the compiled code)")
        if t == "f8" and (isinstance(v, complex) or (hasattr(v, "re") and hasattr(v, "im"))):
            event("sig", "argument declared f8 receives a complex value")
        if t == "f8[:]" and isinstance(v, (list, tuple)):
            EVENTS.append(dict(kind="sig", module=key[0], func=key[1], detail=f"argument declared f8[:] receives a Python {type(v).__name__} of length {len(v)}: "
                               f"not an array (the compiled dispatcher cannot type it; the interpreter accepts it)",
                               args=[_num(a) if not (a is v) else {"pylist": [float(x) for x in v]} for a in args]))
        if t == "f8[:]" and isinstance(v, np.ndarray) and v.dtype != object:
            # the compiled definition exists for a writable, one-dimensional float64 array only
            why = []
            if v.dtype != np.float64:
                why.append(f"dtype {v.dtype}")
            if v.ndim != 1:
                why.append(f"{v.ndim} dimensions")
            if not v.flags.writeable:
                why.append("read-only")
            if why:
                EVENTS.append(dict(kind="sig", module=key[0], func=key[1], detail=f"argument declared f8[:] receives an array that is {', '.join(why)}: no matching "
                                   f"compiled definition (TypeError under the JIT, accepted by the interpreter)",
                                   args=[_num(a) if not (a is v) else {"array": [x.item() for x in v.ravel()], "dtype": str(v.dtype), "readonly": not v.flags.writeable} for a in args]))


def _exit():
    _STACK.pop()


def parse_sig(text):
    """'f8(f8,f8[:])' -> ('f8', ['f8', 'f8[:]'])"""
    text = text.replace(" ", "")
    ret, rest = text.split("(", 1)
    args = [a for a in rest.rstrip(")").split(",") if a]
    return ret, args


class _T(ast.NodeTransformer):
    OPS = {ast.Pow: "**", ast.Mult: "*", ast.Add: "+", ast.Sub: "-"}

    def visit_BinOp(self, node):
        self.generic_visit(node)
        op = self.OPS.get(type(node.op))
        if op is None:
            return node
        return ast.copy_location(ast.Call(func=ast.Name(id="__yv_op", ctx=ast.Load()),
                                          args=[ast.Constant(op), node.left, node.right, ast.Constant(getattr(node, "lineno", 0))], keywords=[]), node)

    def visit_AugAssign(self, node):
        self.generic_visit(node)
        op = self.OPS.get(type(node.op))
        if op is None or not isinstance(node.target, ast.Name):
            return node
        call = ast.Call(func=ast.Name(id="__yv_op", ctx=ast.Load()),
                        args=[ast.Constant(op), ast.Name(id=node.target.id, ctx=ast.Load()), node.value, ast.Constant(getattr(node, "lineno", 0))], keywords=[])
        return ast.copy_location(ast.Assign(targets=[ast.Name(id=node.target.id, ctx=ast.Store())], value=call), node)


def _njit_sig(dec):
    """signature string of an @nb.njit(...) / @njit(...) decorator, '' if there is none, None if it is not njit"""
    target = dec.func if isinstance(dec, ast.Call) else dec
    name = target.attr if isinstance(target, ast.Attribute) else getattr(target, "id", "")
    if name not in ("njit", "jit"):
        return None
    if isinstance(dec, ast.Call) and dec.args and isinstance(dec.args[0], ast.Constant) and isinstance(dec.args[0].value, str):
        return dec.args[0].value
    return ""


def _complex_return(node, c16_names):
    """static typing of the return expressions of one kernel (flow-insensitive): complex iff it contains a complex literal, a call of a
    c16-declared kernel or a variable assigned from such, not under .real/.imag/abs(); numba refuses (TypingError) to compile a kernel
    declared f8 whose return type unifies to complex128, while the interpreter happily returns (x+0j)"""
    cvars = set()

    def is_c(e):
        if isinstance(e, ast.Constant):
            return isinstance(e.value, complex)
        if isinstance(e, ast.Name):
            return e.id in cvars
        if isinstance(e, ast.Attribute):
            if e.attr in ("real", "imag"):
                return False
            return is_c(e.value)
        if isinstance(e, ast.Call):
            fn = e.func
            name = fn.id if isinstance(fn, ast.Name) else (fn.attr if isinstance(fn, ast.Attribute) else "")
            if name in ("abs", "real", "imag", "float", "int"):
                return False
            if name in c16_names:
                return True
            if isinstance(fn, ast.Attribute) and isinstance(fn.value, ast.Name) and fn.value.id == "np":
                return any(is_c(a) for a in e.args)  # numpy ufuncs propagate complexness
            return False  # other kernels are declared f8
        if isinstance(e, ast.BinOp):
            return is_c(e.left) or is_c(e.right)
        if isinstance(e, ast.UnaryOp):
            return is_c(e.operand)
        if isinstance(e, ast.IfExp):
            return is_c(e.body) or is_c(e.orelse)
        if isinstance(e, ast.Subscript):
            return is_c(e.value)
        return False

    for _ in range(3):  # propagate through chains of assignments
        for st in ast.walk(node):
            if isinstance(st, ast.Assign) and is_c(st.value):
                for t in st.targets:
                    if isinstance(t, ast.Name):
                        cvars.add(t.id)
            if isinstance(st, ast.AugAssign) and isinstance(st.target, ast.Name) and is_c(st.value):
                cvars.add(st.target.id)
    return [getattr(r, "lineno", 0) for r in ast.walk(node) if isinstance(r, ast.Return) and r.value is not None and is_c(r.value)]


def kernel_modules():
    import yadism
    import yadism.coefficient_functions as cf
    import yadism.esf as esf

    mods = []
    for pkg in (cf, esf):
        for m in pkgutil.walk_packages(pkg.__path__, pkg.__name__ + "."):
            try:
                mods.append(importlib.import_module(m.name))
            except Exception:  # noqa  (import failures are C16's subject)
                continue
    return mods


def instrument():
    """returns the static findings (signature problems) as a list of dicts"""
    static = []
    c16_names = {"nielsen"}
    for mod in kernel_modules():
        try:
            src = inspect.getsource(mod)
        except Exception:  # noqa
            continue
        if "njit" not in src:
            continue
        tree = ast.parse(src)
        for node in tree.body:
            if not isinstance(node, ast.FunctionDef):
                continue
            sigs = [s for s in (_njit_sig(d) for d in node.decorator_list) if s is not None]
            if not sigs:
                continue
            fn = getattr(mod, node.name, None)
            fn = getattr(fn, "py_func", fn)
            if not inspect.isfunction(fn):
                continue
            key = (mod.__name__, node.name)
            sig = None
            if sigs[0]:
                try:
                    sig = parse_sig(sigs[0])
                except Exception:  # noqa
                    static.append(dict(kind="sig", module=key[0], func=key[1], detail=f"signature {sigs[0]!r} cannot be parsed", args=[]))
            INFO[key] = dict(sig=sig, lineno=node.lineno, entered=0, nparams=len(node.args.args))
            if sig is not None:
                lossy = [t for t in [sig[0]] + sig[1] if t not in LOSSLESS]
                if lossy:
                    static.append(dict(kind="sig", module=key[0], func=key[1], args=[],
                                       detail=f"declared signature {sigs[0]!r}: type(s) {lossy} cannot hold the float64/int64/complex128 values of the Python body "
                                              f"(the compiled kernel rounds/truncates what the interpreter returns exactly)"))
                if sig[0] == "f8":
                    lines = _complex_return(node, c16_names)
                    if lines:
                        static.append(dict(kind="sig", module=key[0], func=key[1], args=[],
                                           detail=f"declared to return f8 but the return expression at line {lines[0]} is complex-typed (a c16 kernel's value or a "
                                                  f"complex literal without .real): numba cannot compile it (TypingError), the interpreter returns (x+0j)"))
                if len(sig[1]) != len(node.args.args):
                    static.append(dict(kind="sig", module=key[0], func=key[1], args=[],
                                       detail=f"declared signature {sigs[0]!r} has {len(sig[1])} arguments, the function {len(node.args.args)}"))
            node.decorator_list = []
            new = _T().visit(node)
            params = [a.arg for a in node.args.args]
            enter = ast.Expr(ast.Call(func=ast.Name(id="__yv_enter", ctx=ast.Load()),
                                      args=[ast.Constant(key), ast.Tuple(elts=[ast.Name(id=p, ctx=ast.Load()) for p in params], ctx=ast.Load())], keywords=[]))
            leave = ast.Expr(ast.Call(func=ast.Name(id="__yv_exit", ctx=ast.Load()), args=[], keywords=[]))
            body = new.body
            doc = []
            if body and isinstance(body[0], ast.Expr) and isinstance(getattr(body[0], "value", None), ast.Constant) and isinstance(body[0].value.value, str):
                doc, body = [body[0]], body[1:]
            new.body = doc + [enter, ast.Try(body=body or [ast.Pass()], handlers=[], orelse=[], finalbody=[leave])]
            m = ast.Module(body=[new], type_ignores=[])
            ast.fix_missing_locations(m)
            ns = {}
            try:
                exec(compile(m, filename=f"<instrumented {key[0]}.{key[1]}>", mode="exec"), fn.__globals__, ns)
            except Exception as e:  # noqa
                static.append(dict(kind="harness", module=key[0], func=key[1], detail=f"cannot instrument: {e!r}", args=[]))
                continue
            if ns[node.name].__code__.co_freevars != fn.__code__.co_freevars:
                continue
            _SAVED[key] = (fn, fn.__code__)
            fn.__globals__["__yv_op"] = _op
            fn.__globals__["__yv_enter"] = _enter
            fn.__globals__["__yv_exit"] = _exit
            fn.__code__ = ns[node.name].__code__
    return static


def locate_exception(exc):
    """(key, witness args) of the innermost instrumented kernel an exception passed through, or None"""
    tb = exc.__traceback__
    found = None
    while tb is not None:
        fn = tb.tb_frame.f_code.co_filename
        if fn.startswith("<instrumented "):
            name = fn[len("<instrumented "):-1]
            modname, func = name.rsplit(".", 1)
            key = (modname, func)
            if key in INFO:
                loc = tb.tb_frame.f_locals
                params = list(tb.tb_frame.f_code.co_varnames[:tb.tb_frame.f_code.co_argcount])
                found = (key, [_num(loc.get(p_)) for p_ in params])
        tb = tb.tb_next
    return found


def restore():
    for key, (fn, code) in _SAVED.items():
        fn.__code__ = code
    _SAVED.clear()
    del _STACK[:]


def take_events():
    ev = list(EVENTS)
    del EVENTS[:]
    del _STACK[:]
    return ev


# ---- replay against the real machine code ---------------------------------------------------------------------------------------

REPLAY_SRC = r'''
import importlib, json, math, sys, cmath
import numpy as np
spec = json.loads(sys.argv[1])
try:
    mod = importlib.import_module(spec["module"])
except Exception as e:
    # kernels with an explicit signature are compiled when the module is imported: the module imports in interpreted mode (the checking
    # process has it), so failing here IS the divergence
    print(json.dumps(dict(same=False, compiled="import raises " + type(e).__name__ + ": " + str(e)[:160].replace("\n", " "), interpreter="module imports and the kernel returns a value",
                          kinds=["raise", "value"])))
    sys.exit(0)
f = getattr(mod, spec["func"])
assert hasattr(f, "py_func"), "JIT is not enabled in the replay process"
def conv(a):
    if isinstance(a, dict) and "pylist" in a:
        return list(a["pylist"])
    if isinstance(a, dict):
        arr = np.array(a["array"], dtype=a["dtype"])
        if "shape" in a:
            arr = arr.reshape(tuple(a["shape"]))
        if a.get("readonly"):
            arr.setflags(write=False)
        return arr
    if isinstance(a, list):
        return np.array(a, dtype=float)
    return a
args = [conv(a) for a in spec["args"]]
def run(g):
    try:
        return ("value", complex(g(*args)))
    except Exception as e:
        return ("raise", type(e).__name__ + ": " + str(e)[:80])
c, p = run(f), run(f.py_func)
same = c[0] == p[0] and (c[0] == "raise" or (cmath.isnan(c[1]) and cmath.isnan(p[1])) or abs(c[1] - p[1]) <= 1e-12 * max(1.0, abs(p[1])))
print(json.dumps(dict(same=bool(same), compiled=str(c[1]), interpreter=str(p[1]), kinds=[c[0], p[0]])))
'''


def replay_compiled(args):
    """compile the kernel with the JIT enabled (sub-process, private cache directory) and compare it with its py_func at the witness arguments"""
    import json
    import os
    import subprocess
    import tempfile

    if not args.get("args") and args.get("static"):
        # a static signature finding: evaluate the kernel at a generic point of its declared arity
        sig = args.get("sig") or ["f8", ["f8", "f8[:]"]]
        args = dict(args, args=[0.37 if t in ("f8", "f4") else ([0.3, 4.0, 1.0, 1.0] if t.endswith("[:]") else 1) for t in sig[1]])
    with tempfile.TemporaryDirectory(dir="/var/tmp") as d:
        env = dict(os.environ, NUMBA_DISABLE_JIT="0", NUMBA_CACHE_DIR=d)
        env.pop("YADISM_VERIF", None)
        r = subprocess.run([sys.executable, "-c", REPLAY_SRC, json.dumps(dict(module=args["module"], func=args["func"], args=args["args"]))],
                           capture_output=True, text=True, env=env, timeout=600)
    line = [ln for ln in r.stdout.splitlines() if ln.startswith("{")]
    if not line:
        return False, f"replay process failed: {r.stderr[-300:]}"
    res = json.loads(line[-1])
    what = f"{args['module']}.{args['func']}{tuple(str(a) for a in args['args'])}: compiled {res['compiled']} vs interpreter {res['interpreter']} ({args.get('detail', '')})"
    return (not res["same"]), what


# ---- frozen globals ---------------------------------------------------------------------------------------------------------------
# numba treats every module-level name a kernel reads (a float/int/array constant of its own module, or an attribute of an imported
# module such as eko.constants.CF) as a COMPILE-TIME constant: the value at compilation (or the one baked into the on-disk cache) is
# what the machine code uses for ever, while the interpreter reads the current value on every call.  The two semantics agree iff
# nothing rebinds such a name at run time.  `frozen_globals()` lists the names every kernel of the current tree reads;
# `global_writers()` scans the whole yadism source for code that rebinds one of them: an assignment `mod.X = ...`, a `global X`
# assignment, or a call of a function (of any library) whose body rebinds one through `global X`.

_MODTREES = {}


def _resolve_const(v):
    import types
    return not (callable(v) or isinstance(v, (types.ModuleType, type)))


def frozen_globals():
    """{(module name, attribute): sorted list of kernels (module, name) that read it}"""
    import types
    out = {}
    for key in INFO:
        fn = _SAVED.get(key, (None,))[0]
        if fn is None:
            mod = sys.modules.get(key[0])
            fn = getattr(mod, key[1], None)
            fn = getattr(fn, "py_func", fn)
        if not inspect.isfunction(fn):
            continue
        try:  # the module's own source (the function's code object may be the instrumented one)
            tree = _MODTREES.get(key[0]) or _MODTREES.setdefault(key[0], ast.parse(inspect.getsource(sys.modules[key[0]])))
            node = next(n for n in tree.body if isinstance(n, ast.FunctionDef) and n.name == key[1])
        except Exception:  # noqa
            continue
        g = fn.__globals__
        local = {a.arg for a in node.args.args}
        for n in ast.walk(node):
            if isinstance(n, ast.Name) and isinstance(n.ctx, ast.Store):
                local.add(n.id)
        for n in ast.walk(node):
            if isinstance(n, ast.Attribute) and isinstance(n.value, ast.Name) and n.value.id not in local:
                m = g.get(n.value.id)
                if isinstance(m, types.ModuleType) and hasattr(m, n.attr) and _resolve_const(getattr(m, n.attr)) and not m.__name__.startswith(("numpy", "numba", "math")):
                    out.setdefault((m.__name__, n.attr), set()).add(key)
            elif isinstance(n, ast.Name) and isinstance(n.ctx, ast.Load) and n.id not in local and n.id in g and not n.id.startswith("__yv"):
                v = g[n.id]
                if _resolve_const(v):
                    # a constant imported by name (`from eko.constants import CF`) is a copy bound in the kernel's own module
                    out.setdefault((fn.__module__, n.id), set()).add(key)
    return {k: sorted(v) for k, v in out.items()}


def _global_rebinds(fnode, modname):
    """names a function body rebinds through `global X` (X assigned somewhere in the body)"""
    gl = set()
    for n in ast.walk(fnode):
        if isinstance(n, ast.Global):
            gl.update(n.names)
    stored = {n.id for n in ast.walk(fnode) if isinstance(n, ast.Name) and isinstance(n.ctx, ast.Store)}
    return {(modname, x) for x in gl & stored}


def global_writers(frozen):
    """code of the yadism package that rebinds a frozen name; list of dicts(file, line, how, names, call=(module, function) or None)"""
    import types
    import yadism

    found = []
    for mi in pkgutil.walk_packages(yadism.__path__, "yadism."):
        try:
            mod = importlib.import_module(mi.name)
            tree = ast.parse(inspect.getsource(mod))
        except Exception:  # noqa
            continue
        ns = vars(mod)
        for fnode in [n for n in ast.walk(tree) if isinstance(n, (ast.FunctionDef, ast.AsyncFunctionDef))]:
            hit = _global_rebinds(fnode, mod.__name__) & set(frozen)
            if hit:
                found.append(dict(file=mod.__name__, line=fnode.lineno, how=f"function {fnode.name} rebinds module-level name(s) through `global`",
                                  names=sorted(hit), call=(mod.__name__, fnode.name)))
        for n in ast.walk(tree):
            tg = []
            if isinstance(n, ast.Assign):
                tg = n.targets
            elif isinstance(n, (ast.AugAssign, ast.AnnAssign)):
                tg = [n.target]
            for t in tg:
                if isinstance(t, ast.Attribute) and isinstance(t.value, ast.Name) and isinstance(ns.get(t.value.id), types.ModuleType):
                    k = (ns[t.value.id].__name__, t.attr)
                    if k in frozen:
                        found.append(dict(file=mod.__name__, line=n.lineno, how=f"assignment to {t.value.id}.{t.attr}", names=[k], call=None))
            if isinstance(n, ast.Call):
                g = None
                if isinstance(n.func, ast.Attribute) and isinstance(n.func.value, ast.Name) and isinstance(ns.get(n.func.value.id), types.ModuleType):
                    g = getattr(ns[n.func.value.id], n.func.attr, None)
                elif isinstance(n.func, ast.Name):
                    g = ns.get(n.func.id)
                    if isinstance(g, types.FunctionType) and g.__module__ == mod.__name__:
                        g = None  # own functions are covered by the `global` scan above
                if n.func.__class__ is ast.Name and n.func.id == "setattr" and len(n.args) >= 2 and isinstance(n.args[0], ast.Name) \
                        and isinstance(ns.get(n.args[0].id), types.ModuleType) and isinstance(n.args[1], ast.Constant):
                    k = (ns[n.args[0].id].__name__, n.args[1].value)
                    if k in frozen:
                        found.append(dict(file=mod.__name__, line=n.lineno, how=f"setattr({n.args[0].id}, {n.args[1].value!r}, ...)", names=[k], call=None))
                g = getattr(g, "py_func", g)
                if isinstance(g, types.FunctionType):
                    try:
                        gnode = ast.parse(textwrap.dedent(inspect.getsource(g))).body[0]
                    except Exception:  # noqa
                        continue
                    hit = _global_rebinds(gnode, g.__module__) & set(frozen)
                    if hit:
                        found.append(dict(file=mod.__name__, line=n.lineno, how=f"call of {g.__module__}.{g.__name__}, which rebinds module-level name(s) through `global`",
                                          names=sorted(hit), call=(g.__module__, g.__name__)))
    return found


FROZEN_REPLAY_SRC = r'''
import importlib, json, sys, inspect
import numpy as np
spec = json.loads(sys.argv[1])
mod = importlib.import_module(spec["module"])
f = getattr(mod, spec["func"])
assert hasattr(f, "py_func"), "JIT is not enabled in the replay process"
args = [np.array(a, dtype=float) if isinstance(a, list) else a for a in spec["args"]]
before = complex(f(*args))                      # compiles (or loads) the kernel with the current value of the global
tm = importlib.import_module(spec["name"][0])
old = getattr(tm, spec["name"][1])
if spec.get("call"):
    w = getattr(importlib.import_module(spec["call"][0]), spec["call"][1])
    npar = len([p for p in inspect.signature(w).parameters.values() if p.default is p.empty and p.kind in (p.POSITIONAL_ONLY, p.POSITIONAL_OR_KEYWORD)])
    done = False
    for cand in (4, 2.0, 7):
        try:
            w(*([cand] * npar))
        except Exception:
            continue
        if getattr(tm, spec["name"][1]) != old:
            done = True
            break
    if not done:
        print(json.dumps(dict(same=True, note="the writer could not be driven to change the value"))); sys.exit(0)
else:
    setattr(tm, spec["name"][1], old * 1.5 + 1)
new = getattr(tm, spec["name"][1])
c, p = complex(f(*args)), complex(f.py_func(*args))
same = abs(c - p) <= 1e-12 * max(1.0, abs(p))
print(json.dumps(dict(same=bool(same), compiled=str(c), interpreter=str(p), before=str(before), old=repr(old), new=repr(new))))
'''


def replay_frozen(args):
    """JIT enabled, private cache: compile the kernel, let the writer found in the source rebind the global, compare machine code and interpreter"""
    import json
    import os
    import subprocess
    import tempfile

    with tempfile.TemporaryDirectory(dir="/var/tmp") as d:
        env = dict(os.environ, NUMBA_DISABLE_JIT="0", NUMBA_CACHE_DIR=d)
        env.pop("YADISM_VERIF", None)
        r = subprocess.run([sys.executable, "-c", FROZEN_REPLAY_SRC, json.dumps(args)], capture_output=True, text=True, env=env, timeout=900)
    line = [ln for ln in r.stdout.splitlines() if ln.startswith("{")]
    if not line:
        return False, f"replay process failed: {r.stderr[-300:]}"
    res = json.loads(line[-1])
    if res.get("same"):
        return False, res.get("note", "compiled and interpreted kernel agree after the write")
    return True, (f"{args['module']}.{args['func']}: after {args['how']} ({args['file']}:{args['line']}) {args['name'][0]}.{args['name'][1]} = {res['new']} (was {res['old']}); "
                  f"compiled kernel still returns {res['compiled']}, the interpreter {res['interpreter']}")
