"""z3's timeout is cooperative: a few nonlinear procedures do not poll the cancel flag and a query can spin far beyond its
budget (seen once: one shard of C20 at 100 % CPU for 20 min on a loaded machine, not reproducible).  Every solver call is
therefore bracketed by `with watch(timeout_ms, label)`; a daemon thread (ctypes calls release the GIL) first interrupts the
context and, if the call still does not return, ends the process with exit status 75.  The driver (yv.run) re-runs such a
shard once with another solver seed and reports the check as inconclusive (never as passed) if it happens again."""

import os
import sys
import threading
import time

EXIT_HUNG = 75
_cur = {"t0": None, "limit": None, "label": "", "interrupted": False}
_started = [False]


def _loop():
    import z3

    while True:
        time.sleep(2.0)
        t0, limit = _cur["t0"], _cur["limit"]
        if t0 is None:
            continue
        over = time.time() - t0 - limit
        if over > 20 and not _cur["interrupted"]:
            _cur["interrupted"] = True
            try:
                z3.main_ctx().interrupt()
            except Exception:  # noqa
                pass
        if over > 90:
            sys.stdout.write(f"HARNESS-WATCHDOG: solver call '{_cur['label'][:120]}' ignored its {limit:.0f}s budget for {over:.0f}s; ending this process\n")
            sys.stdout.flush()
            os._exit(EXIT_HUNG)


class watch:
    def __init__(self, timeout_ms, label=""):
        self.limit = max(0.5, timeout_ms / 1000.0)
        self.label = label

    def __enter__(self):
        if not _started[0]:
            _started[0] = True
            threading.Thread(target=_loop, daemon=True).start()
        _cur.update(t0=time.time(), limit=self.limit, label=self.label, interrupted=False)
        return self

    def __exit__(self, *a):
        _cur["t0"] = None
        return False
