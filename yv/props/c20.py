"""C20 -- runner leaves its inputs untouched and echoes them in the output.

Engine B (CrossHair) on compatibility.update (purity, idempotence, documented content) per option group;
Engine A: the real Runner.__init__ + get_result on cards with symbolic masses, thresholds and kinematics
(all paths), comparing a deep identity snapshot of the caller's cards before and after, and the echo.
"""

import copy
import itertools

import numpy as np
import z3

from yv.engine import chrun, explore, harness, npshim, real, stubs
from yv.engine.real import S, Ctx
from yv.props import c06
from yv.props import common as cm

CH_TARGETS = ["check_group_fns", "check_group_parts", "check_group_sv", "check_group_qed", "check_group_target",
              "check_unknown_target"]
TARGET_SPELLINGS = ["proton", "neutron", "isoscalar", "iron", "lead", "neon", "marble", {"Z": 3.0, "A": 7.0}]
PROJ = {"electron": 11, "positron": -11, "neutrino": 12, "antineutrino": -12}


def snapshot(o, path="", seen=None):
    """Deep structural fingerprint: container identity, type, keys/length, and leaf identity/value."""
    out = {}
    if isinstance(o, dict):
        out[path] = ("dict", id(o), tuple(o.keys()))
        for k, v in o.items():
            out.update(snapshot(v, f"{path}/{k}"))
    elif isinstance(o, (list, tuple)):
        out[path] = (type(o).__name__, id(o), len(o))
        for i, v in enumerate(o):
            out.update(snapshot(v, f"{path}[{i}]"))
    elif isinstance(o, S):
        out[path] = ("S", o.t.get_id())
    elif isinstance(o, np.ndarray):
        out[path] = ("ndarray", id(o), o.shape, o.tobytes() if o.dtype != object else None)
    else:
        out[path] = ("leaf", type(o).__name__, repr(o))
    return out


def container_ids(o):
    """identities of every mutable container (dict, list, ndarray) reachable from o"""
    out = set()
    if isinstance(o, dict):
        out.add(id(o))
        for v in o.values():
            out |= container_ids(v)
    elif isinstance(o, (list, tuple)):
        if isinstance(o, list):
            out.add(id(o))
        for v in o:
            out |= container_ids(v)
    elif isinstance(o, np.ndarray):
        out.add(id(o))
    return out


def same_value(a, b):
    """structural equality that never decides on symbolic values (same term <=> same S)."""
    if isinstance(a, S) or isinstance(b, S):
        return isinstance(a, S) and isinstance(b, S) and a.t.eq(b.t)
    if isinstance(a, dict) and isinstance(b, dict):
        return list(a.keys()) == list(b.keys()) and all(same_value(a[k], b[k]) for k in a)
    if isinstance(a, (list, tuple)) and isinstance(b, (list, tuple)):
        return len(a) == len(b) and all(same_value(x, y) for x, y in zip(a, b))
    if isinstance(a, np.ndarray) or isinstance(b, np.ndarray):
        return np.array_equal(np.asarray(a), np.asarray(b))
    return type(a) == type(b) and a == b


def exercise(V, scheme, nfff, target, proj, tmc, obs_kinds, repeat=False, unsorted_grid=False, drop=None):
    """real Runner + get_result (numerics stubbed); returns list of (label, ok)."""
    import eko.matchings as em
    import yadism.log
    from eko import basis_rotation as br
    from yadism.esf import esf as esfmod
    from yadism.esf import scale_variations as svmod
    from yadism.esf import tmc as tmcmod
    from yadism.runner import Runner

    yadism.log.silent_mode = True
    t, o = c06.cards(V, scheme, nfff, pto=0)
    t["TMC"] = tmc
    o["TargetDIS"] = copy.deepcopy(target)
    if unsorted_grid:
        o["interpolation_xgrid"] = [1.0, 1e-3, 0.5, 0.1]  # admissible: eko sorts the nodes
        if tmc:
            o["interpolation_xgrid"] = np.array(o["interpolation_xgrid"])  # ... and so is an array (np.geomspace, lambertgrid)
    o["ProjectileDIS"] = proj
    # points listed in DEcreasing-then-increasing Q2 (the runner computes in Q2 order; the card must stay as given), keys in both orders
    # every observable has its own points (distinct x), one of them listed twice
    # (Q2 values are concrete so that sorting the points costs no decisions; the thresholds they are compared with stay symbolic)
    o["observables"] = {k: [dict(x=0.1 + 0.01 * i_, Q2=30.0), dict(Q2=10.0, x=0.5 + 0.01 * i_), dict(x=0.3 + 0.01 * i_, Q2=20.0),
                            dict(x=0.1 + 0.01 * i_, Q2=30.0)] for i_, k in enumerate(obs_kinds)}
    if any(k.startswith("XS") for k in obs_kinds):
        for k in obs_kinds:
            if k.startswith("XS"):
                o["observables"][k] = [dict(x=0.15, Q2=25.0, y=0.4), dict(x=0.25, Q2=12.0, y=0.6)]
    if unsorted_grid and o.get("prDIS", "EM") != "CC":
        # the CKM matrix in another admissible spelling: a float array (it is not used by EM/NC runs, but it is the caller's object)
        t["CKM"] = np.array([float(v_) for v_ in str(t["CKM"]).split()], dtype=float)
    if drop is not None:
        # a card that omits one optional key (yadism supplies a default) is as admissible as a complete one
        (t if drop[0] == "theory" else o).pop(drop[1])
    snap_t, snap_o = snapshot(t), snapshot(o)

    def no_sv(self, ker_orders, nf):
        return []

    def fake_convolve_vector(rsl, interpolator, chi):
        n = len(interpolator.xgrid.raw)
        return np.zeros(n), np.zeros(n)

    def fake_convolution(rsl, x, pdf):
        return 0.0, 0.0

    fake_conv = type("FakeConv", (), {"convolve_vector": staticmethod(fake_convolve_vector), "convolution": staticmethod(fake_convolution)})
    res = []
    import yadism.runner as runner_mod

    with npshim.patched((em, "np", npshim.NPShim()), (runner_mod, "np", npshim.NPShim()),
                        (svmod.ScaleVariations, "apply_common_scale_variations", no_sv),
                        (svmod.ScaleVariations, "apply_diff_scale_variations", no_sv), (esfmod, "conv", fake_conv),
                        (esfmod, "np", npshim.ObjZerosShim()), (tmcmod, "conv", fake_conv)):
        runners = [Runner(t, o)]
        res.append(("cards untouched by Runner()", snapshot(t) == snap_t and snapshot(o) == snap_o))
        if repeat:
            runners.append(Runner(t, o))
            res.append(("cards untouched by a second Runner() from the same dicts", snapshot(t) == snap_t and snapshot(o) == snap_o))
        for r in runners:
            out = r.get_result()
            res.append(("cards untouched by get_result()", snapshot(t) == snap_t and snapshot(o) == snap_o))
            res.append(("output.theory echoes the given theory card", same_value(out.theory, t)))
            res.append(("output.observables echoes the given observable card", same_value(out.observables, o)))
            # the echo is a RECORD of what was given, not a view of the caller's objects: no mutable container of the output is one of the caller's
            # (otherwise a later edit of the cards rewrites earlier outputs, and an edit of the output rewrites the cards)
            mine = container_ids(t) | container_ids(o)
            res.append(("output cards share no mutable container with the caller's cards",
                        not (container_ids(out.theory) & mine) and not (container_ids(out.observables) & mine)))
            used = r.configs.managers["interpolator"]
            res.append(("output grid is the grid actually used (the interpolator's nodes, in its order)",
                        list(np.asarray(out["xgrid"]["grid"], dtype=float)) == list(np.asarray(used.xgrid.raw, dtype=float))
                        and sorted(np.asarray(out["xgrid"]["grid"], dtype=float)) == sorted(set(float(v_) for v_ in o["interpolation_xgrid"]))
                        and bool(out["xgrid"]["log"]) == o["interpolation_is_log"]
                        and out["polynomial_degree"] == o["interpolation_polynomial_degree"]))
            res.append(("output pids are the flavour basis", list(out["pids"]) == list(br.flavor_basis_pids)))
            res.append(("output projectilePID matches the projectile", out["projectilePID"] == PROJ[o.get("ProjectileDIS", "electron")]))
            for k in obs_kinds:
                res.append((f"output has one result per requested point [{k}]", len(out[k]) == len(o["observables"][k])))
                res.append((f"result i belongs to point i of the card [{k}]", len(out[k]) == len(o["observables"][k]) and all(
                    r_ is not None and float(r_.x) == float(p_["x"]) for r_, p_ in zip(out[k], o["observables"][k]))))
    return res


def replay_exercise(args):
    try:
        res = exercise(args["values"], args["scheme"], args["nfff"], args["target"], args["proj"], args["tmc"], args["obs"], args.get("repeat", False),
                       args.get("unsorted_grid", False), drop=tuple(args["drop"]) if args.get("drop") else None)
    except (ValueError, KeyError) as e:
        return False, f"rejected: {e!r}"
    bad = [l for l, ok in res if not ok]
    return (True, f"{args['scheme']}/{args['target']}: {bad}") if bad else (False, "all clauses hold")


def replay_crosshair(args):
    r = chrun.crosshair_check(args["target"], timeout=60)
    return r["status"] == "refuted", r["text"][-400:]


REPLAYERS = {"exercise": replay_exercise, "crosshair": replay_crosshair}


SHARDABLE = True


def run(chk, only=None):
    from yadism.input import compatibility
    from yadism.runner import Runner

    chk.encode(compatibility.update, compatibility.update_fns, compatibility.update_scale_variations, compatibility.update_target,
               Runner.__init__, Runner.get_result)
    chk.bounds = {"CrossHair": "FNS/FONLLParts/target as enum indices, NfFF/PTO/PTODIS/QED unbounded ints, presence flags of every optional "
                  "key; one harness per option group with the other groups at their defaults; floats concrete",
                  "Engine A": "schemes x NfFF x 8 target spellings x projectile x TMC, symbolic masses/thresholds/Q2 (all paths), "
                  "SF and XS observables, repeated construction from the same dicts; plus one cell per top-level card key with that key omitted "
                  "(keys whose omission is rejected are skipped)"}
    chk.stub("Engine A: quadrature (conv.convolve_vector / conv.convolution) -> zeros, scale variations -> none, np.digitize -> documented meaning "
             "(the numbers are not the subject; mutation by eko/rich internals is outside)")
    # ---- Engine B ----
    if only in (None, "ch") and chk.first:
        for name in CH_TARGETS:
            target = f"yv.ch.h_compat.{name}"
            r = chrun.crosshair_check(target, timeout=90 if chk.tier == "quick" else 600)
            chk.obligations += 1
            chk.evaluations += 1
            chk.nontrivial.add(target)
            chk.section("crosshair", **{name: f"{r['status']} ({r['secs']:.1f}s)"})
            if r["status"] == "confirmed":
                chk.discharged += 1
            elif r["status"] == "refuted":
                chk.report(f"crosshair:{name}", f"CrossHair counterexample for {name}: {r['text'][-300:]}", "crosshair",
                           dict(target=target, text=r["text"][-600:]))
            else:
                chk.inconclusive_note(f"{name}: CrossHair {r['status']}: {r['text'][-200:]}")
    # ---- Engine A ----
    if only in (None, "runner"):
        q = chk.tier == "quick"
        cells = []
        for (scheme, nfff), target, proj, tmc in itertools.product(
                [("ZM-VFNS", 4), ("FFNS", 3), ("FFNS", 4), ("FFN0", 3), ("FONLL-FFNS", 4), ("FONLL-FFN0", 3)], range(len(TARGET_SPELLINGS)),
                list(PROJ), [0, 1]):
            if q and (len(scheme) + nfff + target + len(proj) + tmc) % 12:
                continue
            cells.append((scheme, nfff, target, proj, tmc))
        for ci, (scheme, nfff, target, proj, tmc) in enumerate(cells):
            tgt = TARGET_SPELLINGS[target]
            # full names, a bare kind (= kind_total) and a cross section: every admissible spelling must be echoed as given
            # ... and BOTH spellings of one observable side by side (two independent entries of the card)
            obs = ["F2_total", "FL_charm", "F3", "F3_total"] if ci % 2 else ["F2_light", "XSHERANC_total", "FL", "FL_total"]
            cname = f"runner:{scheme}/NfFF={nfff}/target={tgt}/{proj}/TMC={tmc}"
            if not chk.mine(cname):
                continue
            with Ctx(chk.seed) as ctx, stubs.cf_stubs():
                def body(scheme=scheme, nfff=nfff, tgt=tgt, proj=proj, tmc=tmc, obs=obs, ci=ci):
                    V = c06.sym_values(ctx)
                    return exercise(V, scheme, nfff, tgt, proj, tmc, obs, repeat=(ci % 3 == 0), unsorted_grid=(ci % 2 == 1))

                V0 = c06.sym_values(ctx)
                ctx.domain += c06.monotone(V0)
                ex = explore.Explorer(ctx, max_paths=16, timeout_ms=3000)
                paths = ex.run(body)
                chk.paths += len(paths)
                args = dict(scheme=scheme, nfff=nfff, target=tgt, proj=proj, tmc=tmc, obs=obs, repeat=(ci % 3 == 0), unsorted_grid=(ci % 2 == 1))
                if not any(p.kind == "ok" for p in paths):
                    chk.inconclusive_note(f"{cname}: vacuity -- no path of this cell computed a result "
                                          f"({[type(p.value).__name__ + ': ' + str(p.value)[:60] for p in paths[:2]]})")
                for i, p in enumerate(paths):
                    if p.kind == "exc":
                        if isinstance(p.value, ValueError):
                            continue
                        chk.notes.append(f"{cname}/path{i}: raises {type(p.value).__name__}: {str(p.value)[:100]} (C16)")
                        chk.section("raised", n=1)
                        continue
                    for lab, ok in p.value:
                        chk.obligations += 1
                        chk.evaluations += 1
                        chk.nontrivial.add(cname)
                        if ok:
                            chk.discharged += 1
                        else:
                            ctx.assign = dict(p.assign)
                            chk.report(f"runner:{lab}", f"{cname}: {lab} -- violated", "exercise",
                                       dict(args, values=c06.vals(ctx, None)))
        chk.section("runner_cells", n=len(cells))
    # ---- Engine A: cards that omit one optional key ----
    if only in (None, "optional"):
        with Ctx(chk.seed) as ctx0:
            t0, o0 = c06.cards(c06.sym_values(ctx0), "ZM-VFNS", 4, pto=0)
        optional, required = [], []
        for card, k in [("theory", k) for k in t0] + [("observables", k) for k in o0]:
            cname = f"runner:optional-key:{card}.{k}"
            if not chk.mine(cname):
                continue
            proj = "electron" if k == "ProjectileDIS" else "positron"
            with Ctx(chk.seed) as ctx, stubs.cf_stubs():
                def body(card=card, k=k, proj=proj):
                    V = c06.sym_values(ctx)
                    return exercise(V, "ZM-VFNS", 4, {"Z": 1, "A": 2}, proj, 0, ["F2_light", "XSHERANC_total"], drop=(card, k))

                V0 = c06.sym_values(ctx)
                ctx.domain += c06.monotone(V0)
                paths = explore.Explorer(ctx, max_paths=2 if chk.tier == "quick" else 16, timeout_ms=3000).run(body)
                chk.paths += len(paths)
                if not any(p.kind == "ok" for p in paths):
                    required.append(f"{card}.{k}")
                    continue
                optional.append(f"{card}.{k}")
                for p in paths:
                    if p.kind != "ok":
                        continue
                    for lab, ok in p.value:
                        chk.obligations += 1
                        chk.evaluations += 1
                        chk.nontrivial.add(cname)
                        if ok:
                            chk.discharged += 1
                        else:
                            ctx.assign = dict(p.assign)
                            chk.report(f"runner:optional:{lab}", f"{cname}: {lab} -- violated", "exercise",
                                       dict(scheme="ZM-VFNS", nfff=4, target={"Z": 1, "A": 2}, proj=proj, tmc=0, obs=["F2_light", "XSHERANC_total"],
                                            drop=[card, k], values=c06.vals(ctx, None)))
        chk.section("optional_keys", optional=optional, required_or_rejected=len(required))
    return chk.finish(
        explanation="CrossHair (symbolic ints/bools/enum indices, all paths) confirms for each option group of compatibility.update: the "
        "caller's dicts and nested objects are untouched, the upgrade returns new objects with the documented content, a second "
        "upgrade is the identity, unknown targets raise ValueError without side effect. The real Runner.__init__ + get_result then "
        "run on cards with symbolic masses/thresholds/kinematics over all feasible paths: a deep identity snapshot of the cards is "
        "unchanged after construction, repeated construction and get_result; Output.theory/observables equal the given cards; "
        "grid, pids and projectilePID are the ones used.",
        rule="one obligation per CrossHair condition and per (cell, path, clause); distinct = condition / cell; non-trivial = symbolic inputs",
    )
