"""C01 -- operator entries are the convolution of the coefficient functions with the basis.

Part A: the real conv.convolution / convolve_vector / quad_ker_* on a GENERIC distribution (reg, sing,
loc are uninterpreted functions R(z), S(z), L(x)) and a generic basis function F; QUADPACK and eko's
polynomials are replaced by their contracts.  Part B: the real ESF.compute_local + Combiner + real
channel classes, with conv.convolution replaced by a recording stub, for the assembly
operator[p, j] = sum_kernels w_p * chi * conv_j(rsl, chi) and the convolution points chi.
"""

import itertools

import numpy as np
import z3

from yv.engine import explore, harness, npshim, real, stubs
from yv.engine.real import S, Ctx
from yv.props import common as cm

SHAPES = list(itertools.product([False, True], repeat=3))  # (reg, sing, loc) present?


class Area:
    def __init__(self, xmin, xmax):
        self.xmin, self.xmax = xmin, xmax


class GenericBasis:
    """eko BasisFunction contract: areas with borders, log flag, evaluation token, p(x), is_below_x."""

    def __init__(self, ctx, borders, mode_log, name="F"):
        self.ctx = ctx
        self._mode_log = mode_log
        self.borders_x = borders  # in x-space
        conv_ = (lambda b: np.log(b)) if mode_log else (lambda b: b)
        self.areas = [Area(conv_(borders[i]), conv_(borders[i + 1])) for i in range(len(borders) - 1)]
        self.areas_representation = ("areas-token", name)
        self.name = name
        self.calls = []

    def is_below_x(self, x):
        # eko: areas[-1].xmax <= (log) x   <=>   x-space upper border <= x
        return self.borders_x[-1] <= x

    def __call__(self, x):
        self.calls.append(x)
        return self.ctx.ufun(f"basis|{self.name}", [x])


class FloatBasis:
    """basis function of the float re-runs: the same pseudo-values the uninterpreted function basis|p<j> takes in the symbolic run"""

    def __init__(self, j):
        self.j, self.name = j, f"p{j}"
        self.borders_x = [0.01, 1.0]
        self.areas = [Area(0.01, 1.0)]
        self.areas_representation = ("areas-token", self.name)

    def is_below_x(self, x):
        return self.borders_x[-1] <= x

    def __call__(self, x):
        return float(real.ufun_witness(f"basis|{self.name}", [float(x)]))


def run_convolution(ctx, shape, mode_log, n_areas):
    """One symbolic execution of the real conv.convolution; returns everything needed for the claims."""
    from yadism.coefficient_functions.partonic_channel import RSL
    from yadism.esf import conv

    x = ctx.var("x", 0, None, wlo=0.05, whi=1.2)
    z = ctx.var("z", 0, 1)
    bs = [ctx.var(f"b{i}", 0, 1, hi_open=False, wlo=0.01 + 0.3 * i, whi=0.3 * (i + 1)) for i in range(n_areas + 1)]
    for i in range(n_areas):
        ctx.domain.append(bs[i].t < bs[i + 1].t)
    pdf = GenericBasis(ctx, bs, mode_log)
    a_reg, a_sing, a_loc = [ctx.var(f"arg_{k}", None, None) for k in ("reg", "sing", "loc")]
    R = lambda zz, a: ctx.ufun("R", [zz, a[0]])
    Sg = lambda zz, a: ctx.ufun("S", [zz, a[0]])
    L = lambda xx, a: ctx.ufun("L", [xx, a[0]])
    from yadism.coefficient_functions import partonic_channel as pcm

    with npshim.patched((pcm, "np", npshim.NPShim())):
        rsl = RSL(R if shape[0] else None, Sg if shape[1] else None, L if shape[2] else None,
                  args=dict(reg=[a_reg], sing=[a_sing], loc=[a_loc]))
    quad_calls = []

    class FakeIntegrate:
        @staticmethod
        def quad(f, a, b, args=(), epsabs=None, points=None, **kw):
            I, E = ctx.var(f"I{len(quad_calls)}", None, None), ctx.var(f"E{len(quad_calls)}", None, None)
            quad_calls.append(dict(f=f, a=a, b=b, args=args, epsabs=epsabs, points=points, kw=kw, I=I, E=E))
            return I, E

    class FakeScipy:
        integrate = FakeIntegrate

    class FakeInterp:
        @staticmethod
        def evaluate_x(u, areas):
            return ctx.ufun(f"basis|{areas[1]}", [u]) if not mode_log else ctx.ufun("WRONG-linear-eval-in-log-mode", [u])

        @staticmethod
        def log_evaluate_x(u, areas):
            return ctx.ufun(f"basis|{areas[1]}", [u]) if mode_log else ctx.ufun("WRONG-log-eval-in-linear-mode", [u])

    with npshim.patched((conv, "scipy", FakeScipy), (conv, "interpolation", FakeInterp), (conv, "np", npshim.NPShim())):
        from yadism.coefficient_functions import partonic_channel as pcm

        with npshim.patched((pcm, "np", npshim.NPShim())):
            res = conv.convolution(rsl, x, pdf)
            # evaluate the integrand that was handed to quad, at symbolic z (inside the patches)
            integrand = None
            if quad_calls:
                q = quad_calls[0]
                integrand = q["f"](z, *q["args"])
    return dict(x=x, z=z, bs=bs, pdf=pdf, res=res, quad=quad_calls, integrand=integrand, args=(a_reg, a_sing, a_loc), rsl=rsl)


def claims_convolution(ctx, shape, mode_log, n_areas, rec):
    """[(label, impl, ref)] for one path of run_convolution."""
    from yadism.esf import conv

    eps = real.tofrac(conv.eps_integration_border)
    x, z, bs, pdf = rec["x"], rec["z"], rec["bs"], rec["pdf"]
    a_reg, a_sing, a_loc = rec["args"]
    F = lambda u: ctx.ufun("basis|F", [u])
    out = []
    res = rec["res"]
    early = not pdf.calls and not rec["quad"]
    if early:
        out.append(("early exit returns exactly (0,0)", isinstance(res, tuple) and res[0] == 0.0 and res[1] == 0.0, True))
        return out, True
    val, err = res
    ref_val = 0
    if shape[0] or shape[1]:
        out.append(("quad called once", len(rec["quad"]) == 1, True))
        if rec["quad"]:
            q = rec["quad"][0]
            ref_val = q["I"]
            integ = 0
            if shape[0]:
                integ = integ + ctx.ufun("R", [z, a_reg]) * F(x / z) / z
            if shape[1]:
                integ = integ + ctx.ufun("S", [z, a_sing]) * (F(x / z) / z - F(x))
            out.append(("integrand(z) = R F(x/z)/z + S (F(x/z)/z - F(x))", rec["integrand"], integ))
            out.append(("lower limit = x(1+eps)", q["a"], x * (1 + eps)))
            mx = bs[0]  # x/border is largest for the smallest border
            upper = x / mx
            out.append(("upper limit = min(x/b_min, 1)(1-eps)", q["b"], (1 if bool(upper > 1) else upper) * (1 - eps)))
            pts = list(q["points"]) if q["points"] is not None else []
            out.append(("number of break points", len(pts) == len(bs), True))
            for i, (pt, b) in enumerate(zip(pts, bs)):
                out.append((f"break point {i} = x/border", pt, x / b))
            out.append(("epsabs is the module value", q["epsabs"] == conv.eps_integration_abs, True))
            out.append(("error is quad's error", err, q["E"]))
    else:
        out.append(("no quadrature without reg/sing", len(rec["quad"]) == 0, True))
        out.append(("error 0", err == 0, True))
    ref = ref_val + (F(x) * ctx.ufun("L", [x, a_loc]) if shape[2] else 0)
    out.append(("result = I + F(x) L(x)", val, ref))
    return out, False


# ---------------------------------------------------------------------------------------------
# Part B: assembly in compute_local
# ---------------------------------------------------------------------------------------------

class NoSV:
    """scale-variation manager switched off (C05 covers it)."""

    def apply_common_scale_variations(self, ker_orders, nf):
        return []

    def apply_diff_scale_variations(self, ker_orders, nf):
        return []


ASSEMBLY = [
    dict(name="light NC", obs="F2_light", process="NC", pid=11, scheme="ZM-VFNS", nf=3, ZMq=(True, True, True), pto=1, chi="x"),
    dict(name="light CC N3LO", obs="F3_total", process="CC", pid=12, scheme="ZM-VFNS", nf=4, ZMq=(True, True, True), pto=3, chi="x"),
    dict(name="heavy CC (slow rescaling)", obs="F2_charm", process="CC", pid=12, scheme="FFNS", nf=3, ZMq=(False, False, False), pto=1,
         chi="mixed"),
    dict(name="heavy+intrinsic NC", obs="F2_charm", process="NC", pid=11, scheme="FFNS", nf=3, ZMq=(False, False, False), pto=1,
         chi="mixed"),
    dict(name="FFN0 NC", obs="FL_total", process="NC", pid=11, scheme="FFN0", nf=3, ZMq=(False, False, False), pto=2, chi="x"),
    # the REAL eko interpolator (concrete grid, its own block structure): every basis function is handed to the convolution,
    # for x anywhere in the grid (bulk, last intervals, on a node)
    dict(name="light NC, real eko interpolator (7 nodes, degree 3, log)", obs="F2_light", process="NC", pid=11, scheme="ZM-VFNS", nf=3,
         ZMq=(True, True, True), pto=1, chi="x", real_interp=dict(grid=[0.001, 0.01, 0.1, 0.3, 0.6, 0.85, 1.0], degree=3, log=True)),
    dict(name="light NC, real eko interpolator (5 nodes, degree 2, lin)", obs="F2_light", process="NC", pid=11, scheme="ZM-VFNS", nf=3,
         ZMq=(True, True, True), pto=0, chi="x", real_interp=dict(grid=[0.1, 0.3, 0.6, 0.85, 1.0], degree=2, log=False)),
]


def chi_oracle(k, x, Q2, m2h):
    """published convolution point per family (independent of the classes' own convolution_point);
    m2h: squared mass of the heavy quark of the cell (charm)."""
    mod = type(k.coeff).__module__
    if ".heavy." in mod and mod.endswith("_cc"):
        return x * (1 + m2h / Q2)  # Gluck et al.: slow rescaling
    if ".intrinsic." in mod and mod.endswith("_nc"):
        # Kretzer-Schienbein with m1 = m2 = m: chi = x/eta = x (1 + sqrt(1 + 4 m^2/Q^2)) / 2
        return x * (1 + np.sqrt(1 + 4 * m2h / Q2)) / 2
    if ".intrinsic." in mod and mod.endswith("_cc"):
        return x  # Kretzer-Schienbein eq. 6 with m2 = 0
    return x


def run_assembly(ctx, cell, P, x, Q2, m2c, tag, cvals=None):
    """Real ESF.compute_local with conv.convolution recorded; returns (esf, records)."""
    import yadism.coefficient_functions as cf
    from yadism.esf import conv, esf as esfmod

    if cell.get("real_interp"):
        from eko import interpolation as eint

        ri = cell["real_interp"]
        interp = eint.InterpolatorDispatcher(eint.XGrid(ri["grid"], ri["log"]), ri["degree"], mode_N=False)
        basis = list(interp)
    else:
        nodes = [0.01, 1.0]
        basis = [GenericBasis(ctx, [0.01, 1.0], False, name=f"p{j}") for j in range(2)] if ctx is not None else [FloatBasis(j) for j in range(2)]
        interp = cm.StubInterpolator(nodes, basis)
    cc = cm.make_coupling(P, cell["process"], cell["pid"])
    cfg = cm.make_configs(cc, pto=cell["pto"], pto_evol=min(cell["pto"], 2), scheme=cell["scheme"], nf_ff=cell["nf"],
                          ZMq=cell["ZMq"], m2hq=(m2c, 25.0, 30000.0), threshold=cell["nf"], interpolator=interp, sv_manager=NoSV())
    records = []

    def fake_convolution(rsl, chi, pj):
        j = basis.index(pj)
        idx = len(records)
        import random

        r = random.Random(idx)
        c, e = round(r.uniform(-2, 2), 6), round(r.uniform(0, 1), 6)
        if ctx is not None:
            c, e = ctx.var_w(f"{tag}C{idx}", c), ctx.var_w(f"{tag}Ce{idx}", e, 0)
        elif cvals:
            # float re-run at a solver-chosen point: the recorded quadrature values are part of the point
            c, e = cvals.get(f"{tag}C{idx}", c), cvals.get(f"{tag}Ce{idx}", e)
        records.append(dict(rsl=rsl, chi=chi, j=j, c=c, e=e))
        return c, e

    class ZerosShim(npshim.NPShim):
        @staticmethod
        def zeros(shape, dtype=None, **kw):
            a = np.empty(shape, dtype=object)
            a.fill(0)
            return a

        @staticmethod
        def abs(v):
            if isinstance(v, np.ndarray) and v.dtype == object:
                return np.frompyfunc(lambda e: abs(e) if not isinstance(e, S) else real.abs_s(e), 1, 1)(v)
            return np.abs(v)

    e = cm.make_esf(cfg, cell["obs"], x, Q2)
    with npshim.patched((conv, "convolution", fake_convolution), (esfmod, "np", ZerosShim())):
        e.compute_local()
    return e, records, basis


def claims_assembly(ctx, cell, P, x, Q2, m2c, cvals=None):
    import yadism.coefficient_functions as cf
    from eko import basis_rotation as br

    e, records, basis = run_assembly(ctx, cell, P, x, Q2, m2c, "", cvals=cvals)
    # the kernel list is recomputed independently through the real Combiner (C07/C02 check its content)
    ks = cf.Combiner(e).collect_elems()
    out = []
    expected = {}
    eerr = {}
    ri = 0
    n_mixed = set()
    for k in ks:
        for o in e.orders:
            if not k.has_order(o):
                continue
            rsl = k.coeff[o]()
            if rsl is None:
                continue
            chi_ref = chi_oracle(k, x, Q2, m2c)
            n_mixed.add(type(k.coeff).__module__.split(".")[-2])
            for j in range(len(basis)):
                if ri >= len(records):
                    out.append((f"convolution call {ri} missing", False, True))
                    continue
                r = records[ri]
                ri += 1
                out.append((f"call{ri}: basis index", r["j"] == j, True))
                out.append((f"call{ri}: parts of the RSL handed over ({type(k.coeff).__name__}/o{o})",
                            (r["rsl"].reg is not None, r["rsl"].sing is not None, r["rsl"].loc is not None)
                            == (rsl.reg is not None, rsl.sing is not None, rsl.loc is not None), True))
                out.append((f"call{ri}: evaluation point = published chi ({type(k.coeff).__name__})", r["chi"], chi_ref))
                for pid in br.flavor_basis_pids:
                    w = k.partons.get(pid, 0)
                    if isinstance(w, (int, float)) and w == 0:
                        continue
                    key = ((o, 0, 0, 0), pid, j)
                    expected[key] = expected.get(key, 0) + w * chi_ref * r["c"]
                    eerr[key] = eerr.get(key, 0) + real.abs_s(w) * chi_ref * r["e"] if ctx is not None else eerr.get(key, 0) + abs(w) * chi_ref * r["e"]
    out.append(("number of convolution calls", len(records) == ri, True))
    for o, (val, err) in e.res.orders.items():
        for ip, pid in enumerate(br.flavor_basis_pids):
            for j in range(len(basis)):
                out.append((f"op[{o}][pid {pid}, j {j}]", val[ip, j], expected.get((o, pid, j), 0)))
                out.append((f"err[{o}][pid {pid}, j {j}]", err[ip, j], eerr.get((o, pid, j), 0)))
    return out


def operator_case(poison):
    """real conv.convolve_operator on a 4-node grid with conv.convolution recorded; returns (operator, errors, records).
    np.empty in the module hands out `poison()` entries: memory that is not written stays whatever it was."""
    from yadism.esf import conv

    class BF:
        def __init__(self, j):
            self.j = j

    nodes = [0.1, 0.3, 0.6, 1.0]
    interp = cm.StubInterpolator(nodes, [BF(j) for j in range(4)])
    rec = {}

    def fake_convolution(fnc, xk, bf):
        k = nodes.index(xk)
        rec[(bf.j, k)] = (1.0 + bf.j + 10 * k, 0.01 * (1 + bf.j + 10 * k))
        return rec[(bf.j, k)]

    class PoisonNP(npshim.NPShim):
        @staticmethod
        def empty(shape, dtype=None, **kw):
            a = np.empty(shape, dtype=object)
            for idx in np.ndindex(a.shape):
                a[idx] = poison()
            return a

    with npshim.patched((conv, "convolution", fake_convolution), (conv, "np", PoisonNP())):
        op, err = conv.convolve_operator("token-rsl", interp)
    return op, err, rec


def replay_operator(args):
    vals = iter([1e30 + 7.0 * i for i in range(64)])
    op, err, rec = operator_case(lambda: next(vals))
    bad = []
    for l in range(4):
        for k in range(4):
            want = rec.get((l, k), (0.0, 0.0))
            if float(op[l, k]) != want[0] or float(err[l, k]) != want[1]:
                bad.append((l, k, float(op[l, k]), want[0]))
    return (True, f"convolve_operator entries (basis l, node k, got, convolution(fnc, x_k, p_l) or 0 where skipped): {bad[:3]}") if bad else (False, "every entry written")


def replay_generic(args):
    """Part A/B claims are identities in uninterpreted symbols; a float replay re-runs the harness with
    concrete stand-ins.  Here: re-run the symbolic claim with the solver's point fixed (domain collapsed)."""
    return False, "generic-distribution claims have no float replay"


def replay_conv_numeric(args):
    """Concrete replay of Part A: real conv.convolution with concrete R, S, L, F and an exact quadrature
    stand-in is compared with the definition computed by scipy.quad directly."""
    from scipy.integrate import quad
    from yadism.coefficient_functions.partonic_channel import RSL
    from yadism.esf import conv

    shape = args["shape"]
    x = args["x"]
    bs = args["bs"]
    R = lambda z, a: 1.3 + 0.7 * z + a[0]
    Sg = lambda z, a: (2.0 + a[0] * z) / (1 - z)
    L = lambda xx, a: 0.4 - 2.0 * np.log(1 - xx) + a[0]
    F = lambda u: (u - bs[0]) * (bs[-1] - u) * 3.0 + 0.2 if bs[0] <= u <= bs[-1] else 0.0

    class PDF:
        _mode_log = args["mode_log"]
        areas = [Area(np.log(bs[i]) if args["mode_log"] else bs[i], np.log(bs[i + 1]) if args["mode_log"] else bs[i + 1])
                 for i in range(len(bs) - 1)]
        areas_representation = None

        def is_below_x(self, xx):
            return bs[-1] <= xx

        def __call__(self, xx):
            return F(xx)

    class FakeInterp:
        evaluate_x = staticmethod(lambda u, areas: F(u))
        log_evaluate_x = staticmethod(lambda u, areas: F(u))

    rsl = RSL(R if shape[0] else None, Sg if shape[1] else None, L if shape[2] else None, args=dict(reg=[0.1], sing=[0.2], loc=[0.3]))
    lab = args.get("label") or ""
    if lab.startswith(("lower limit", "upper limit", "epsabs", "break points")):
        # claims about what is handed to the quadrature are replayed by recording the real call (a numeric comparison of the
        # integral cannot resolve a 1e-10 shift of a border)
        calls = []

        class RecScipy:
            class integrate:
                @staticmethod
                def quad(f, a, b, args=(), epsabs=None, points=None, **kw):
                    calls.append(dict(a=a, b=b, epsabs=epsabs, points=points))
                    return 0.0, 0.0

        with npshim.patched((conv, "interpolation", FakeInterp), (conv, "scipy", RecScipy)):
            try:
                conv.convolution(rsl, x, PDF())
            except Exception as e:  # noqa
                return True, f"conv.convolution raised {e!r}"
        if not calls:
            return False, "no quadrature call at this point"
        eps = conv.eps_integration_border
        lo, up = x * (1 + eps), min(x / bs[0], 1.0) * (1 - eps)
        bad = []
        for c in calls:
            if lab.startswith("lower") and abs(c["a"] - lo) > 1e-14 * max(1.0, abs(lo)):
                bad.append(f"lower limit {c['a']!r}, documented x(1+eps) = {lo!r}")
            if lab.startswith("upper") and abs(c["b"] - up) > 1e-14 * max(1.0, abs(up)):
                bad.append(f"upper limit {c['b']!r}, documented min(x/b_min,1)(1-eps) = {up!r}")
            if lab.startswith("epsabs") and c["epsabs"] != conv.eps_integration_abs:
                bad.append(f"epsabs {c['epsabs']!r}")
        return (True, f"shape {shape}, x={x}, borders {bs}: {bad[:2]}") if bad else (False, "limits as documented")
    with npshim.patched((conv, "interpolation", FakeInterp)):
        try:
            got, _ = conv.convolution(rsl, x, PDF())
        except Exception as e:  # noqa
            return True, f"conv.convolution raised {e!r}"
    if x >= 1 - conv.eps_integration_border or bs[-1] <= x:
        ref = 0.0
    else:
        up = min(x / bs[0], 1.0)
        f = lambda z: (R(z, [0.1]) * F(x / z) / z if shape[0] else 0.0) + (Sg(z, [0.2]) * (F(x / z) / z - F(x)) if shape[1] else 0.0)
        ref = quad(f, x, up, points=sorted(min(max(x / b, x), up) for b in bs), limit=200)[0] if (shape[0] or shape[1]) else 0.0
        ref += F(x) * L(x, [0.3]) if shape[2] else 0.0
    if abs(got - ref) > 1e-6 * max(1.0, abs(ref)):
        return True, f"conv.convolution = {got}, definition = {ref} (shape {shape}, x={x}, borders {bs})"
    return False, f"agree: {got} vs {ref}"


def replay_assembly(args):
    cell = dict(args["cell"])
    cell["ZMq"] = tuple(cell["ZMq"])
    P = cm.ew_params(values=args["params"])
    with cm.fixed_nf():
        prs = claims_assembly(None, cell, P, args["params"]["x"], args["params"]["Q2"], args["params"]["m2c"], cvals=args.get("cvals"))
    bad = harness.float_pairs_differ(prs, args.get("label"))
    return (True, f"{cell['name']}: {bad[:3]}") if bad else (False, "assembly formula holds at this point")


REPLAYERS = {"conv": replay_conv_numeric, "assembly": replay_assembly, "operator": replay_operator}


def float_pairs_assembly(args):
    cell = dict(args["cell"])
    cell["ZMq"] = tuple(cell["ZMq"])
    with cm.fixed_nf():
        return claims_assembly(None, cell, cm.ew_params(values=args["params"]), args["params"]["x"], args["params"]["Q2"], args["params"]["m2c"],
                               cvals=args.get("cvals"))


REPLAYERS["assembly:pairs"] = float_pairs_assembly


def run(chk, only=None):
    from yadism.coefficient_functions import partonic_channel as pcm
    from yadism.coefficient_functions.heavy import partonic_channel as hpc
    from yadism.coefficient_functions.intrinsic import partonic_channel as ipc
    from yadism.esf import conv, esf as esfmod

    chk.encode(conv.convolution, conv.convolve_vector, conv.quad_ker_reg, conv.quad_ker_sing, conv.quad_ker_reg_sing,
               esfmod.EvaluatedStructureFunction.__init__, esfmod.EvaluatedStructureFunction.compute_local,
               pcm.PartonicChannel.convolution_point, hpc.ChargedCurrentBase.convolution_point,
               ipc.NeutralCurrentBase.convolution_point)
    chk.bounds = {"distribution": "generic: R(z), S(z), L(x) uninterpreted, all 8 shapes", "basis function": "generic F, <= 2 areas, "
                  "log and linear mode, symbolic borders", "x": "> 0 symbolic (both sides of 1-eps and of the support)",
                  "assembly": f"{len(ASSEMBLY)} cells (light, heavy CC, heavy+intrinsic NC, FFN0), 2 basis functions, orders <= pto"}
    chk.stub("scipy.integrate.quad(f,a,b,args,points,epsabs) -> fresh (I, E) with contract I = int_a^b f (arguments recorded and checked)",
             "eko interpolation.(log_)evaluate_x(u, areas) -> uninterpreted F(u) of the basis function owning `areas`",
             "basis function: is_below_x from its upper border, p(x) -> F(x)",
             "Part B: conv.convolution -> recorded formal value per (rsl, chi, j); sv_manager switched off (C05)")
    chk.assume("quadrature accuracy, eko's polynomials and the correctness of the coefficient functions themselves (C03/C04) are outside",
               "prefactor 'x' of the property is the published convolution point chi for rescaled families (DESIGN §4 C01)")
    # ---- Part A ----
    if only in (None, "A"):
        for shape, mode_log, n_areas in itertools.product(SHAPES, [False, True], [1, 2]):
            cname = f"convolution/shape{tuple(int(b) for b in shape)}/{'log' if mode_log else 'lin'}/{n_areas}areas"
            with Ctx(chk.seed) as ctx:
                ctx.log_monotone = True
                ex = explore.Explorer(ctx, max_paths=64, timeout_ms=5000)

                def body(shape=shape, mode_log=mode_log, n_areas=n_areas):
                    rec = run_convolution(ctx, shape, mode_log, n_areas)
                    prs, early = claims_convolution(ctx, shape, mode_log, n_areas, rec)
                    return rec, prs, early

                paths = ex.run(body)
                chk.paths += len(paths)
                if ex.bound_hit:
                    chk.inconclusive_note(f"{cname}: path bound hit")
                n_early = n_full = 0
                for i, p in enumerate(paths):
                    ctx.assign = dict(p.assign)
                    if p.kind == "exc":
                        chk.obligations += 1
                        bs = [float(p.assign.get(f"b{k}", 0.1 * (k + 1))) for k in range(n_areas + 1)]
                        chk.report(f"conv:raise:{shape}", f"{cname}: raises {type(p.value).__name__}: {str(p.value)[:100]}", "conv",
                                   dict(shape=shape, mode_log=mode_log, x=float(p.assign.get("x", 0.5)), bs=bs))
                        continue
                    rec, prs, early = p.value
                    extra_pc = []
                    n_early += early
                    n_full += not early
                    facts = ctx.facts() + p.pc + extra_pc
                    x = rec["x"]
                    eps = real.tofrac(conv.eps_integration_border)
                    if early:
                        chk.prove(f"{cname}/path{i}: (0,0) only for x >= 1-eps or support below x",
                                  z3.Or(x.t >= real.zval(1 - eps), rec["bs"][-1].t <= x.t), facts, key="conv:early",
                                  what=f"{cname}: convolution returns (0,0) although the domain is not empty",
                                  replay=lambda m, ctx=ctx, shape=shape, mode_log=mode_log, n=n_areas: ("conv", _conv_args(ctx, m, shape, mode_log, n)))
                    else:
                        chk.prove(f"{cname}/path{i}: integrates only for x < 1-eps and support above x",
                                  z3.And(x.t < real.zval(1 - eps), rec["bs"][-1].t > x.t), facts, key="conv:domain",
                                  what=f"{cname}: convolution integrates on an empty domain",
                                  replay=lambda m, ctx=ctx, shape=shape, mode_log=mode_log, n=n_areas: ("conv", _conv_args(ctx, m, shape, mode_log, n)))

                    def rp_for(lab, ctx=ctx, shape=shape, mode_log=mode_log, n=n_areas):
                        return lambda m: ("conv", dict(_conv_args(ctx, m, shape, mode_log, n), label=lab))

                    harness.prove_pairs(chk, f"{cname}/path{i}", prs, facts, rp_for, lambda lab: f"conv:{lab.split('(')[0][:40]}",
                                        sample={"case": cname, "claims": [l for l, _, _ in prs][:8]})
                if not (n_early and n_full):
                    chk.inconclusive_note(f"{cname}: vacuity -- early-exit paths {n_early}, integrating paths {n_full}")
                else:
                    chk.vacuity["reach_ok"] += 1
    # ---- convolve_operator (the building block of the scale-variation operators): every entry is a convolution or the documented zero ----
    if only in (None, "A", "operator"):
        with Ctx(chk.seed) as ctx:
            n_ = [0]

            def poison():
                n_[0] += 1
                return ctx.var(f"uninitialised!{n_[0]}", None, None)

            op, err, rec = operator_case(poison)
            for l in range(4):
                for k in range(4):
                    want = rec.get((l, k), (0.0, 0.0))
                    for lab, got, ref in ((f"operator[{l},{k}]", op[l, k], want[0]), (f"operator error[{l},{k}]", err[l, k], want[1])):
                        chk.prove(f"convolve_operator: {lab} == convolution(fnc, x_{k}, p_{l})" + ("" if (l, k) in rec else " (skipped: exactly 0)"),
                                  S.lift(got).t == S.lift(ref).t, ctx.facts(), key="conv:operator", replay=lambda m: ("operator", {}),
                                  what=f"convolve_operator: {lab} is not the convolution (or the documented zero)")
    # ---- Part B ----
    if only in (None, "B"):
        for cell in ASSEMBLY:
            cname = f"assembly/{cell['name']}"
            with Ctx(chk.seed) as ctx, cm.fixed_nf(), cm.generic_drop_empty(), stubs.cf_stubs():

                def body():
                    P = cm.ew_params(ctx)
                    x = ctx.var("x", 0, 1, wlo=0.02, whi=0.2)
                    Q2 = ctx.var("Q2", 0, None, wlo=30, whi=90)
                    m2c = ctx.var("m2c", 0, None, wlo=1, whi=3)
                    return claims_assembly(ctx, cell, P, x, Q2, m2c)

                ex = explore.Explorer(ctx, max_paths=16, timeout_ms=5000)
                paths = ex.run(body)
                chk.paths += len(paths)
                npaths_ok = 0
                for i, p in enumerate(paths):
                    ctx.assign = dict(p.assign)
                    if p.kind == "exc":
                        if isinstance(p.value, ValueError) and "outside xgrid" in str(p.value) or isinstance(p.value, ValueError) and "Kinematics" in str(p.value):
                            continue  # kinematic rejection paths (C16)
                        chk.notes.append(f"{cname}/path{i}: raises {type(p.value).__name__}: {str(p.value)[:100]}")
                        chk.inconclusive_note(f"{cname}/path{i}: raises {type(p.value).__name__}: {str(p.value)[:100]}")
                        continue
                    npaths_ok += 1

                    def rp_for(lab, ctx=ctx, cell=cell):
                        def rp(model):
                            asg = explore.model_to_assign(ctx, model)
                            params = {k: float(asg.get(k, ctx.assign.get(k, 1))) for k in cm.EW_PARAMS + ["Q2", "x", "m2c"]}
                            cvals = {k: float(asg.get(k, ctx.assign.get(k))) for k in ctx.vars if k.startswith("C") and k[1:].lstrip("e").isdigit()
                                     and (k in asg or k in ctx.assign)}
                            return "assembly", dict(cell={k: v for k, v in cell.items()}, params=params, label=lab, cvals=cvals)
                        return rp

                    harness.prove_pairs(chk, f"{cname}/path{i}", p.value, ctx.facts() + p.pc + p.generic, rp_for,
                                        lambda lab, cell=cell: f"assembly:{cell['name']}:{lab.split('[')[0][:30]}",
                                        sample={"cell": cell["name"], "pairs": len(p.value)})
                if not npaths_ok:
                    chk.inconclusive_note(f"{cname}: no computing path")
    return chk.finish(
        explanation="Part A: the real conv.convolution/quad_ker_* run on a generic distribution (uninterpreted R, S, L), a generic "
        "basis function with symbolic area borders (log and linear mode) and symbolic x; every feasible path is explored and z3 "
        "proves that the integrand handed to the quadrature is R F(x/z)/z + S (F(x/z)/z - F(x)), the limits/break points/epsabs are "
        "the documented ones, the result is I + F(x) L(x), and (0,0) is returned exactly on the empty domain. Part B: the real "
        "ESF.compute_local + Combiner + channel classes with conv.convolution recorded: each operator entry is proved equal to "
        "sum_kernels w_p * chi * conv_j(rsl_o, chi) (errors with |w_p|) and chi equal to the published convolution point.",
        rule="one obligation per (shape, mode, areas, path, claim) and per (assembly cell, path, entry); non-trivial = symbolic",
    )


def _conv_args(ctx, m, shape, mode_log, n):
    asg = explore.model_to_assign(ctx, m)
    g = lambda k, d: float(asg.get(k, ctx.assign.get(k, d)))
    return dict(shape=list(shape), mode_log=mode_log, x=g("x", 0.5), bs=[g(f"b{k}", 0.1 * (k + 1)) for k in range(n + 1)])
