"""C12 -- nuclear target is an isospin rotation of up and down."""

import itertools

import z3

from yv.engine import npshim, explore, harness, real, stubs
from yv.engine.real import S, Ctx
from yv.props import common as cm

# documented (Z, A): docs/theory/misc.rst (proton, neutron, isoscalar) and the references cited next to
# the table in input/compatibility.py (NuTeV steel survey; hep-ex/0102049; neon; CaCO3 averages)
TARGETS = {
    "proton": (1, 1),
    "neutron": (0, 1),
    "isoscalar": (1, 2),
    "iron": (23.403, 49.618),
    "lead": (82, 208),
    "neon": (10, 20),
    "marble": ((20 + 6 + 3 * 8) / 5, (40 + 12 + 3 * 16) / 5),
}
UNKNOWN = ["", "Proton", "deuteron", "proton ", "iron56", "carbon", "isoscalar2", "None"]


def rotate_form(form, Z, A):
    """oracle: sum_p w_p f'_p with f'_u=(Z f_u+(A-Z) f_d)/A, f'_d=(Z f_d+(A-Z) f_u)/A, as weights on f_p
    (pid 2 = u, 1 = d; same for antiquarks)."""
    out = {}
    for (sig, p), w in form.items():
        if abs(p) in (1, 2):
            s = 1 if p > 0 else -1
            other = s * (3 - abs(p))
            out[(sig, p)] = out.get((sig, p), 0) + w * Z / A
            out[(sig, other)] = out.get((sig, other), 0) + w * (A - Z) / A
        else:
            out[(sig, p)] = out.get((sig, p), 0) + w
    return out


def cells(tier):
    out = []
    q = tier == "quick"
    for kind, flav, proc, pid, (sch, nf, zm), pto in itertools.product(
            cm.KINDS, ["light", "total", "charm"], ["EM", "NC", "CC"], [11, -12],
            [("ZM-VFNS", 3, (1, 1, 1)), ("ZM-VFNS", 5, (1, 1, 1)), ("FFNS", 3, (0, 0, 0)), ("FFN0", 4, (1, 0, 0))], [0, 2]):
        if proc == "CC" and kind in ("g1", "gL", "g4"):
            continue
        if q and (nf + pto + len(kind) + len(flav) + len(proc) + abs(pid)) % 5 and not (sch == "FFN0" and pto == 2 and kind == "F2" and pid == 11):
            continue
        out.append(dict(obs=f"{kind}_{flav}", process=proc, pid=pid, scheme=sch, nf=nf, ZMq=tuple(bool(z) for z in zm), pto=pto,
                        a_first=bool((len(out) % 2))))
    # PTODIS and PTO(evolution) are independent cards entries: towers of asymptotic kernels of every length (1, 2, 3) next to NNLO/N3LO coefficients
    for kind, proc, pto, pto_evol in itertools.product(["F2", "FL", "F3"], ["EM", "NC"], [2, 3], [0, 1, 2]):
        if pto_evol == min(pto, 2) or (proc == "EM" and kind == "F3"):
            continue
        if q and not (kind == "F2" and proc == "NC"):
            continue
        out.append(dict(obs=f"{kind}_light", process=proc, pid=11, scheme="FFN0", nf=3, ZMq=(False, False, False), pto=pto, pto_evol=pto_evol,
                        a_first=bool((len(out) % 2))))
    return out


def pairs_combiner(cell, P, Q2, Z, A):
    kw = dict(obs=cell["obs"], process=cell["process"], pid=cell["pid"], Q2=Q2, scheme=cell["scheme"], nf=cell["nf"],
              ZMq=cell["ZMq"], pto=cell["pto"], pto_evol=cell.get("pto_evol", min(cell["pto"], 2)))
    # the (Z, A) dictionary may list its keys in either order (yaml.safe_dump sorts them: A first)
    tgt = {"A": A, "Z": Z} if cell.get("a_first") else {"Z": Z, "A": A}
    ft = cm.linear_form(cm.run_combiner(P, target=tgt, **kw))
    fp = cm.linear_form(cm.run_combiner(P, target={"Z": 1.0, "A": 1.0}, **kw))
    ref = rotate_form(fp, Z, A)
    out = []
    for key in sorted(set(ft) | set(ref), key=str):
        out.append((f"{key[0][0]}[{key[1]}]", ft.get(key, 0), ref.get(key, 0)))
    # the proton run itself is the identity rotation
    for key in sorted(fp, key=str):
        out.append((f"proton:{key[0][0]}[{key[1]}]", fp[key], rotate_form(fp, 1, 1).get(key, 0)))
    return out


def pairs_apply(pattern, W, Z, A, F):
    """apply_isospin on one kernel whose partons dict has the keys in `pattern`; F: formal PDFs."""
    import yadism.coefficient_functions as cf
    from yadism.coefficient_functions.kernels import Kernel

    ker = Kernel({p: W[p] for p in pattern}, None)
    before = dict(ker.partons)
    cf.Combiner.apply_isospin([ker], Z, A)
    lhs = 0
    for p, w in ker.partons.items():
        lhs = lhs + w * F[p]
    Fp = dict(F)
    for s in (1, -1):
        Fp[s * 2] = (Z * F[s * 2] + (A - Z) * F[s * 1]) / A
        Fp[s * 1] = (Z * F[s * 1] + (A - Z) * F[s * 2]) / A
    rhs = 0
    for p, w in before.items():
        rhs = rhs + w * Fp[p]
    out = [("sum w' f == sum w f'", lhs, rhs)]
    for p in before:
        if abs(p) not in (1, 2):
            out.append((f"spectator[{p}]", ker.partons[p], before[p]))
    return out


PIDS = [1, 2, -1, -2, 3, -4, 21]


def replay_apply(args):
    W = {int(k): v for k, v in args["W"].items()}
    F = {int(k): v for k, v in args["F"].items()}
    prs = pairs_apply([int(p) for p in args["pattern"]], W, args["Z"], args["A"], F)
    bad = harness.float_pairs_differ(prs, args.get("label"))
    return (True, str(bad[:3])) if bad else (False, "holds")


def replay_cell(args):
    P = cm.ew_params(values=args["params"])
    cell = dict(args["cell"])
    cell["ZMq"] = tuple(cell["ZMq"])
    with cm.fixed_nf():
        prs = pairs_combiner(cell, P, args["params"]["Q2"], args["params"]["Z"], args["params"]["A"])
    bad = harness.float_pairs_differ(prs, args.get("label"))
    return (True, f"{cell}: {bad[:3]}") if bad else (False, "holds")


def replay_table(args):
    from yadism.input import compatibility

    name = args["name"]
    obs = {"TargetDIS": name}
    try:
        compatibility.update_target(obs)
    except ValueError as e:
        return (name in TARGETS), f"ValueError: {e}"
    except Exception as e:  # noqa
        return True, f"{type(e).__name__}: {e}"
    if name not in TARGETS:
        return True, f"unknown target '{name}' accepted: {obs['TargetDIS']}"
    z, a = TARGETS[name]
    got = obs["TargetDIS"]
    if abs(got["Z"] - z) > 1e-12 or abs(got["A"] - a) > 1e-12 or set(got) != {"Z", "A"}:
        return True, f"{name} -> {got}, documented Z={z}, A={a}"
    return False, "matches"


def replay_explicit(args):
    from yadism.input import compatibility

    obs = {"TargetDIS": dict(args["target"])}
    try:
        compatibility.update_target(obs)
    except Exception as e:  # noqa
        return True, f"update_target raises {type(e).__name__}: {e}"
    got = obs.get("TargetDIS")
    ok = isinstance(got, dict) and all(k in got and float(got[k]) == float(v) for k, v in args["target"].items())
    return (not ok), f"update_target turned {args['target']} into {got}"


REPLAYERS = {"explicit": replay_explicit, "apply": replay_apply, "cell": replay_cell, "table": replay_table}


def float_pairs_cell(args):
    cell = dict(args["cell"])
    cell["ZMq"] = tuple(cell["ZMq"])
    with cm.fixed_nf():
        return pairs_combiner(cell, cm.ew_params(values=args["params"]), args["params"]["Q2"], args["params"]["Z"], args["params"]["A"])


def float_pairs_apply(args):
    W = {int(k): v for k, v in args["W"].items()}
    F = {int(k): v for k, v in args["F"].items()}
    return pairs_apply([int(p) for p in args["pattern"]], W, args["Z"], args["A"], F)


REPLAYERS["cell:pairs"] = float_pairs_cell
REPLAYERS["apply:pairs"] = float_pairs_apply


SHARDABLE = True


def run(chk, only=None):
    import yadism.coefficient_functions as cf
    from yadism.input import compatibility

    chk.encode(cf.Combiner.apply_isospin, cf.Combiner.collect_elems, cf.Combiner.drop_empty, compatibility.update_target)
    chk.bounds = {"Z, A": "arbitrary reals with A != 0 (no 0<=Z<=A restriction needed)", "weights/PDFs": "symbolic reals",
                  "parton-key patterns": "all 16 subsets of {d,u,dbar,ubar} plus spectators"}
    # 1. apply_isospin on every key pattern, fully symbolic
    if only in (None, "apply"):
        for r in range(0, 5):
            for sub in itertools.combinations([1, 2, -1, -2], r):
                if not chk.mine(f"apply{sub}"):
                    continue
                pattern = list(sub) + [3, -4, 21]
                import yadism.coefficient_functions as cfmod

                with Ctx(chk.seed) as ctx, npshim.patched((cfmod, "np", npshim.NPShim())):
                    def body(pattern=pattern):
                        Z = ctx.var("Z", None, None, wlo=0, whi=100)
                        A = ctx.var("A", None, None, wlo=1, whi=250)
                        W = {p: ctx.var(f"w{p}", None, None, wlo=-3, whi=3) for p in PIDS}
                        F = {p: ctx.var(f"f{p}", None, None, wlo=0, whi=3) for p in PIDS}
                        return pairs_apply(pattern, W, Z, A, F)

                    A0 = ctx.var("A", None, None, wlo=1, whi=250)
                    ctx.domain.append(A0.t != 0)
                    # the rotation is straight-line code; any branch on Z, A or the weights (a shortcut, a tolerance) is explored
                    paths = explore.Explorer(ctx, max_paths=32, timeout_ms=3000).run(body)
                    chk.paths += len(paths)

                    def rp_for(lab, ctx=ctx, pattern=pattern):
                        def rp(model):
                            asg = explore.model_to_assign(ctx, model)
                            g = lambda n: float(asg.get(n, ctx.assign.get(n, 1)))
                            return "apply", dict(pattern=pattern, W={p: g(f"w{p}") for p in PIDS}, F={p: g(f"f{p}") for p in PIDS},
                                                 Z=g("Z"), A=g("A"), label=lab)
                        return rp

                    for pi, p_ in enumerate(paths):
                        ctx.assign = dict(p_.assign)
                        if p_.kind != "ok":
                            chk.obligations += 1
                            chk.report(f"apply:{sub}:raise", f"apply_isospin:keys={sub}: raises {type(p_.value).__name__}: {str(p_.value)[:100]}", "apply",
                                       rp_for("raise")(None)[1])
                            continue
                        harness.prove_pairs(chk, f"apply_isospin:keys={sub}" + (f"/path{pi}" if pi else ""), p_.value, ctx.facts() + p_.pc, rp_for,
                                            lambda lab, sub=sub: f"apply:{sub}:{lab}",
                                            sample={"pattern": pattern, "claim": "sum_p w'_p f_p == sum_p w_p f'_p for all Z, A!=0, w, f"})
        with Ctx(chk.seed) as ctx:
            Z = ctx.var("Z", None, None)
            A = ctx.var("A", None, None)
            ctx.domain.append(A.t != 0)
            W = {p: ctx.var(f"w{p}", None, None) for p in PIDS}
            F = {p: ctx.var(f"f{p}", None, None) for p in PIDS}
            prs = pairs_apply([1, 2, -1, -2, 3, -4, 21], W, Z, A, F)
            if chk.first:
                # perturbation twin: the transposed (wrong) mixture must be refuted
                wrong = (Z * F[2] + (A - Z) * F[1]) / A
                chk.expect_sat("perturbed oracle", ctx.facts() + [S.lift(prs[0][1]).t != (S.lift(prs[0][2]) + W[1] * wrong).t],
                               what="perturbation")
                chk.expect_sat("domain", ctx.facts())
    # 2. through the real Combiner: target run == rotated proton run (kernel lists), symbolic Z, A
    if only in (None, "combiner"):
        allc = cells(chk.tier)
        for cell in allc:
            cname = ":".join(f"{k}={v}" for k, v in cell.items())
            if not chk.mine(cname):
                continue
            with Ctx(chk.seed) as ctx, cm.fixed_nf(), cm.generic_drop_empty(), stubs.cf_stubs():

                def body():
                    P = cm.ew_params(ctx)
                    Q2 = ctx.var("Q2", 0, None, wlo=1, whi=20000)
                    Z = ctx.var("Z", None, None, wlo=0.1, whi=100)
                    A = ctx.var("A", None, None, wlo=101, whi=250)
                    return pairs_combiner(cell, P, Q2, Z, A)

                ctx.var("A", None, None)
                ctx.domain.append(ctx.vars["A"][0] != 0)
                ex = explore.Explorer(ctx, max_paths=16, timeout_ms=3000)
                paths = ex.run(body)
                chk.paths += len(paths)
                if paths and not any(p.kind == "ok" for p in paths) and not all(isinstance(p.value, (ValueError, NotImplementedError)) for p in paths):
                    chk.inconclusive_note(f"{cname}: vacuity -- every path raised ({type(paths[0].value).__name__}: {str(paths[0].value)[:80]})")
                for p in paths:
                    ctx.assign = dict(p.assign)  # replays fall back to this path's witness point
                    if p.kind == "exc":
                        chk.notes.append(f"{cname}: raises {type(p.value).__name__}: {str(p.value)[:80]} (C16)")
                        continue

                    def rp_for(lab, ctx=ctx, cell=cell):
                        def rp(model):
                            asg = explore.model_to_assign(ctx, model)
                            params = {k: float(asg.get(k, ctx.assign.get(k, 1))) for k in cm.EW_PARAMS + ["Q2", "Z", "A"]}
                            return "cell", dict(cell=cell, params=params, label=lab)
                        return rp

                    harness.prove_pairs(chk, cname, p.value, ctx.facts() + p.pc + p.generic, rp_for,
                                        lambda lab, cell=cell: f"combiner:{cell['obs']}:{cell['process']}:{lab}")
        chk.section("combiner_cells", n=len(allc))
    # 3. named targets
    if only in (None, "table") and chk.first:
        for name in list(TARGETS) + UNKNOWN:
            chk.obligations += 1
            chk.evaluations += 1
            bad, detail = replay_table(dict(name=name))
            if bad:
                chk.report(f"table:{name}", f"named target '{name}': {detail}", "table", dict(name=name))
            else:
                chk.discharged += 1
        # explicit {Z, A} targets keep their (in general non-integer) values
        for tgt in ({"Z": 3.0, "A": 7.0}, {"Z": 23.403, "A": 49.618}, {"A": 63.5, "Z": 29.5}, {"Z": 0.4, "A": 1.0}, {"Z": 0.0, "A": 1.0}, {"Z": 0, "A": 2}):
            chk.obligations += 1
            chk.evaluations += 1
            bad, detail = replay_explicit(dict(target=tgt))
            if bad:
                chk.report("table:explicit", f"explicit target {tgt}: {detail}", "explicit", dict(target=tgt))
            else:
                chk.discharged += 1
    return chk.finish(
        explanation="Combiner.apply_isospin is executed on kernels with symbolic weights for every subset of up/down keys and z3 "
        "proves sum_p w'_p f_p == sum_p w_p f'_p for ALL real Z, A != 0, weights and formal PDFs; the real Combiner run for a "
        "symbolic target is proved equal (as a formal linear form) to the proton run rotated by the oracle; the named-target "
        "table is compared with the documented (Z,A) and unknown names must raise ValueError.",
        rule="one obligation per (key pattern | configuration cell, parton/kernel pair) and per target name; distinct = distinct "
        "pattern/cell; non-trivial = symbolic Z, A involved",
    )
