"""C16 -- every documented configuration yields a finite result or a clear rejection.

A. dispatch lattice: the real Combiner + kernel generators + channel constructors + order methods for
   kind x heavyness x process x projectile x scheme x NfFF x PTO (x FONLL part), Q2 symbolic (all
   threshold paths): the only admissible exceptions are explicit rejections;
B. every RSL part of every channel class evaluated at a symbolic z with the argument vector the class
   packs: no internal error on any feasible path;
C. kinematic validation: ESF, TMC objects and the SF front door on symbolic x, Q2, x_min:
   (x <= 0 or x > 1 or Q2 <= 0 or x < x_min) <=> ValueError;
D. the NaN/inf scrubber visits every valid observable name;
E. ObservableName on arbitrary short strings (CrossHair).
"""

import itertools
import math
import traceback

import numpy as np
import z3

from yv.engine import chrun, explore, harness, npshim, real, stubs
from yv.engine.real import S, Ctx
from yv.props import c03
from yv.props import common as cm

REJECTIONS = (ValueError, NotImplementedError)
FLAVORS = ["light", "total", "charm", "bottom", "top", "charmlight", "bottomlight", "toplight"]


_AST_CACHE = {}


def _raised_explicitly(e):
    """True iff the exception comes from a `raise` statement (in yadism or in the harness' stand-ins for its objects), not from
    inside a builtin such as list.index or a library call: 'ValueError: 7 is not in list' is an internal lookup failure even
    though its type is ValueError."""
    import ast
    import linecache

    tb = e.__traceback__
    if tb is None:
        return True
    while tb.tb_next is not None:
        tb = tb.tb_next
    fname, lineno = tb.tb_frame.f_code.co_filename, tb.tb_lineno
    if fname not in _AST_CACHE:
        try:
            _AST_CACHE[fname] = ast.parse(open(fname).read())
        except Exception:  # noqa
            _AST_CACHE[fname] = None
    tree = _AST_CACHE[fname]
    if tree is None:
        return "raise" in linecache.getline(fname, lineno)
    for node in ast.walk(tree):
        if isinstance(node, ast.Raise) and node.lineno <= lineno <= getattr(node, "end_lineno", node.lineno):
            return True
    return False


def is_clear_rejection(e):
    if isinstance(e, KeyError) or isinstance(e, (IndexError, AttributeError, TypeError, ImportError, ZeroDivisionError, NameError,
                                                   AssertionError)):
        return False
    if isinstance(e, REJECTIONS) or (isinstance(e, RuntimeError) and str(e)):
        return _raised_explicitly(e)
    return False


def scheme_cells():
    out = [("ZM-VFNS", nf, (True, True, True), "full") for nf in (3, 4, 5, 6)]
    for sch in ("FFNS", "FFN0"):
        for nf in (3, 4, 5):
            out.append((sch, nf, tuple(k + 4 <= nf for k in range(3)), "full"))
    for sch in ("FONLL-FFNS", "FONLL-FFN0"):
        for nf in (3, 4, 5):
            for part in ("full", "massless", "massive"):
                out.append((sch, nf, tuple(not (k + 4 == nf + 1) for k in range(3)), part))
    return out


def lattice(tier):
    cells = []
    for kind, flav, proc, pid, (sch, nf, zm, part), pto in itertools.product(cm.KINDS, FLAVORS, ["EM", "NC", "CC"], [11, -11, 12, -12],
                                                                            scheme_cells(), [0, 1, 2, 3]):
        if tier == "quick":
            h = hash((kind, flav, proc, pid, sch, nf, part, pto)) % 97
            if h >= 3:
                continue
        cells.append(dict(kind=kind, flav=flav, proc=proc, pid=pid, sch=sch, nf=nf, zm=zm, part=part, pto=pto))
    return cells


def dispatch_cell(cell, Q2):
    """kernels and RSL construction for one cell; returns [(class name, order, parts present, arg lengths)]"""
    import yadism.coefficient_functions as cf

    cc = cm.make_coupling(cm.ew_params(values={}), cell["proc"], cell["pid"])
    cfg = cm.make_configs(cc, pto=cell["pto"], pto_evol=min(cell["pto"], 2) if cell.get("pto_evol") is None else cell["pto_evol"],
                          scheme=cell["sch"], nf_ff=cell["nf"], ZMq=tuple(cell["zm"]), threshold=cell["nf"], fonllparts=cell["part"])
    esf_ = cm.make_esf(cfg, f"{cell['kind']}_{cell['flav']}", 0.1, Q2)
    out = []
    for k in cf.Combiner(esf_).collect_elems():
        k.channel  # classification must succeed (ValueError would be an internal naming slip)
        for o in esf_.orders:
            if not k.has_order(o):
                continue
            rsl = k.coeff[o]()
            if rsl is None:
                continue
            k.coeff.convolution_point()
            out.append((f"{type(k.coeff).__module__.split('coefficient_functions.')[-1]}.{type(k.coeff).__name__}", o,
                        (rsl.reg is not None, rsl.sing is not None, rsl.loc is not None)))
    return out


def replay_dispatch(args):
    cell = dict(args["cell"])
    try:
        with cm.fixed_nf():
            dispatch_cell(cell, float(args.get("Q2", 50.0)))
    except Exception as e:  # noqa
        if is_clear_rejection(e):
            return False, f"clean rejection: {type(e).__name__}: {e}"
        return True, f"{cell}: {type(e).__name__}: {str(e)[:150]}"
    return False, "computes"


def dispatch_key(cell, e):
    fam = "polarised-CC" if cell["proc"] == "CC" and cell["kind"] in ("g1", "gL", "g4") else (
        "g1-N3LO" if cell["kind"] == "g1" and cell["pto"] == 3 else f"{cell['kind']}:{cell['proc']}:{cell['sch']}:pto{cell['pto']}:{cell['flav']}")
    return f"dispatch:{type(e).__name__}:{fam}"


# ---- B: RSL parts -------------------------------------------------------------------------------


def part_eval(ctx, cls, kws, nf, proc, order):
    obj = c03.build(ctx, cls, kws, nf, proc)
    rsl = obj[order]()
    if rsl is None:
        return None
    z = ctx.var("z", 0, 1)
    done = []
    for part in ("reg", "sing", "loc"):
        f = getattr(rsl, part)
        if f is None:
            continue
        try:
            f(z, rsl.args[part])
            done.append((part, None))
        except (real.NotEncodable, real.Concretised) as e:
            done.append((part, ("not-encodable", str(e)[:80])))
        except TypeError as e:
            if "complex" in str(e) or "Dual" in str(e) or "'S'" in str(e):
                done.append((part, ("not-encodable", str(e)[:80])))
            else:
                done.append((part, ("raise", e)))
        except Exception as e:  # noqa
            done.append((part, ("raise", e)))
    return done


def replay_part(args):
    obj = c03._float_obj(args)
    try:
        rsl = obj[args["order"]]()
        if rsl is None:
            return False, "no RSL"
        f = getattr(rsl, args["part"])
        with np.errstate(all="ignore"):
            v = f(args["z"], rsl.args[args["part"]])
    except Exception as e:  # noqa
        if is_clear_rejection(e):
            return False, f"clean rejection {e!r}"
        return True, f"{args['cls']}[{args['order']}].{args['part']}(z={args['z']}) raises {type(e).__name__}: {e}"
    return False, f"value {v}"


# ---- C: kinematics ------------------------------------------------------------------------------


def kin_case(ctx_or_vals, case):
    """build the object the front door would build; returns ('ok'|'ValueError'|other exception, x, Q2, xmin)"""
    from yadism import observable_name as on
    from yadism.esf import conv, tmc as tmcmod
    from yadism.sf import StructureFunction

    sym = isinstance(ctx_or_vals, Ctx)
    if sym:
        ctx = ctx_or_vals
        x = ctx.var("x", None, None, wlo=-0.5, whi=1.5)
        Q2 = ctx.var("Q2", None, None, wlo=-5, whi=50)
        xmin = ctx.var("xmin", 0, 1, wlo=0.001, whi=0.3)
        M2 = ctx.var("M2", 0, None, lo_open=False, wlo=0.5, whi=1.2)
    else:
        x, Q2, xmin, M2 = (ctx_or_vals[k] for k in ("x", "Q2", "xmin", "M2"))

    class B:
        def __init__(self, xmax):
            self.xmax = xmax

        def is_below_x(self, xx):
            return self.xmax <= xx

    interp = cm.StubInterpolator([xmin, 1.0], [B(1.0), B(1.0)])
    cc = cm.make_coupling(cm.ew_params(values={}), "EM", 11)
    cfg = cm.make_configs(cc, TMC=case["tmc"], interpolator=interp, M2target=M2)
    runner = cm.Info(configs=cfg)
    sf = StructureFunction(on.ObservableName(f"{case['kind']}_total"), runner)
    runner.get_sf = lambda name: StructureFunction(name, runner)
    fake_conv = lambda rsl, xx, pj: (0.0, 0.0)
    from yadism.coefficient_functions import partonic_channel as pcm

    from yadism.esf import esf as esfmod0

    # numpy calls on the kinematics inside esf.py / tmc.py (np.isclose, np.sqrt, ...) keep their documented meaning on symbolic values
    with npshim.patched((conv, "convolution", fake_conv), (pcm, "np", npshim.NPShim()), (esfmod0, "np", npshim.NPShim()), (tmcmod, "np", npshim.NPShim())):
        try:
            obj = sf.get_esf(sf.obs_name, {"x": x, "Q2": Q2}, use_raw=False)
            if isinstance(obj, tmcmod.EvaluatedStructureFunctionTMC):
                # front door of a TMC request: the object is asked for its result (bare ESFs answer with empty results here)
                from yadism.esf import esf as esfmod
                from yadism.esf.result import ESFResult

                orig = esfmod.EvaluatedStructureFunction.get_result
                esfmod.EvaluatedStructureFunction.get_result = lambda self_: ESFResult(self_.x, self_.Q2, 4)
                try:
                    obj.get_result()
                finally:
                    esfmod.EvaluatedStructureFunction.get_result = orig
            return "ok", x, Q2, xmin
        except ValueError as e:
            return "ValueError", x, Q2, xmin
        except Exception as e:  # noqa
            return e, x, Q2, xmin


def replay_kin(args):
    out, x, Q2, xmin = kin_case(args["values"], args["case"])
    outside = x <= 0 or x > 1 or Q2 <= 0 or x < xmin
    if not isinstance(out, str):
        if is_clear_rejection(out):
            out = "ValueError"
        else:
            return True, f"{args['case']} at {args['values']}: {type(out).__name__}: {out}"
    if outside and out == "ok":
        return True, f"{args['case']}: kinematics {args['values']} are outside the domain but a result is returned"
    if not outside and out == "ValueError" and args.get("expect_ok"):
        return True, f"{args['case']}: admissible kinematics {args['values']} are rejected"
    return False, f"outcome {out}, outside={outside}"


# ---- D: scrubber --------------------------------------------------------------------------------


def scrub_case(name, pos, bad):
    from yadism.esf.result import ESFResult
    from yadism.output import Output
    from yadism.runner import Runner

    r = object.__new__(Runner)
    out = Output()
    res = ESFResult(0.1, 10.0, 4)
    v = np.arange(4, dtype=float).reshape(2, 2) + 1
    e = np.arange(4, dtype=float).reshape(2, 2) + 10
    v[pos] = bad
    e[pos[::-1]] = bad
    res.orders[(1, 0, 0, 0)] = (v, e)
    out[name] = [res]
    out["other_none_observable"] = None
    out["FL_light" if name != "FL_light" else "F2_light"] = None  # an observable switched off next to the one under test
    out["xgrid"] = {"grid": [0.1, 1.0], "log": True}
    new = r.replace_nans_with_0(out)
    nv, ne = new[name][0].orders[(1, 0, 0, 0)]
    ok = np.all(np.isfinite(nv)) and np.all(np.isfinite(ne)) and nv[pos] == 0.0 and ne[pos[::-1]] == 0.0
    rest = [(i, j) for i in range(2) for j in range(2) if (i, j) != pos]
    ok = ok and all(nv[p] == v[p] for p in rest) and not np.isfinite(out[name][0].orders[(1, 0, 0, 0)][0][pos])
    return bool(ok)


def replay_scrub(args):
    try:
        ok = scrub_case(args["name"], tuple(args["pos"]), float(args["bad"]))
    except Exception as e:  # noqa
        return True, f"replace_nans_with_0 raises {type(e).__name__}: {e}"
    return (not ok), (f"{args['name']}: a {args['bad']} at {args['pos']} survives the scrubber (or finite entries/the input were altered)" if not ok else "scrubbed")


def replay_crosshair(args):
    r = chrun.crosshair_check(args["target"], timeout=60)
    return r["status"] == "refuted", r["text"][-400:]


def replay_import(args):
    return c03.replay_import(args)


def _replay_compute(args, fn):
    try:
        with cm.fixed_nf():
            fn(dict(args["cell"]))
    except Exception as e:  # noqa
        if is_clear_rejection(e):
            return False, f"clean rejection {e!r}"
        return True, f"{args['cell']}: {type(e).__name__}: {str(e)[:150]}"
    return False, "computes"


REPLAYERS = {"dispatch": replay_dispatch, "part": replay_part, "kin": replay_kin, "scrub": replay_scrub, "crosshair": replay_crosshair,
             "import": replay_import}


SHARDABLE = True



# ---- cross sections: singular strata of the combination coefficients -------------------------------------------------------------------

XS_GRID = {"x": ["1/4", "1/2", "1"], "y": ["1", "1/2", "1/4"], "M2h": ["1", "1/2", "2", "1/4"]}


def xs_float_run(case, vals):
    """the real CrossSection -> EvaluatedCrossSection.get_result on plain Python floats (the numbers a card holds); returns None or the exception"""
    from yv.props import c11

    tens = {}

    def mk(name):
        tens.setdefault(name, 0.25 + 0.5 * (len(tens) % 3))
        return tens[name]

    import warnings

    try:
        with warnings.catch_warnings():
            warnings.simplefilter("ignore")
            c11.pairs_for(case, c11.params(values={k: float(v) for k, v in vals.items()}), mk, only_impl=True)
    except Exception as e:  # noqa
        return e
    return None


def replay_xs(args):
    e = xs_float_run(args["case"], args["values"])
    if e is None or is_clear_rejection(e):
        return False, "finite/inf coefficients or an explicit rejection at this point"
    return True, f"{args['case']} at {args['values']}: internal {type(e).__name__}: {str(e)[:100]} (admissible kinematics, no explicit rejection)"


REPLAYERS["xs"] = replay_xs


def run_xs_singular(chk):
    """The coefficients of the documented combinations are rational functions of (x, y, Q2, M_h^2, M_W^2): every division met by the real code on
    symbolic kinematics is an obligation `denominator != 0`.  Where the solver finds the denominator able to vanish INSIDE the admissible domain
    (a singular stratum, e.g. FW at y^2/2 + 1 - y = M^2 x^2 y^2/Q2), the proxies cannot say what the code does (IEEE inf vs ZeroDivisionError):
    the real code is then executed on plain floats at solver-chosen points of that stratum (preferring dyadic values, where the float
    denominator is exactly 0.0) and must answer with numbers or an explicit rejection."""
    from yadism.esf import exs
    from yv.props import c11

    nstrata = npoints = 0
    for kind, pid in itertools.product(c11.XS_KINDS, [11, -12]):
        case = dict(kind=kind, flavor="total", pid=pid)
        cname = f"xs-singular:{kind}/pid{pid}"
        with Ctx(chk.seed, track_defined=True) as ctx:
            names = {}

            def mk(name):
                if name not in names:
                    names[name] = ctx.var("T|" + name, None, None, wlo=-2, whi=2)
                return names[name]

            def body():
                with npshim.patched((exs, "np", npshim.NPShim())):
                    return c11.pairs_for(case, c11.params(ctx), mk)

            ex = explore.Explorer(ctx, max_paths=16, timeout_ms=5000)
            paths = ex.run(body)
            chk.paths += len(paths)
            seen = set()
            kin = [n for n in ("x", "y", "Q2", "M2h", "M2W", "GF", "pol") if n in ctx.vars]
            for okind, cond, pc in ctx.obligations:
                if okind != "div" or cond.get_id() in seen:
                    continue
                seen.add(cond.get_id())
                chk.obligations += 1
                chk.evaluations += 1
                chk.nontrivial.add(cname)
                base = list(ctx.domain) + list(ctx.atom_facts) + list(pc) + [z3.Not(cond)]
                v = chk.prover.check(base, cname + ":denominator can vanish", want_model=True)
                if v.status == "unsat":
                    chk.discharged += 1      # regular everywhere on the domain: the symbolic value is a real number
                    continue
                if v.status == "unknown":
                    chk.inconclusive_note(f"{cname}: singular stratum undecided")
                    continue
                nstrata += 1
                # points of the stratum: dyadic ones first (grid on x, y, M_h^2; the solver completes the rest), then the solver's own model
                pts = []
                for gx, gy, gm in itertools.product(XS_GRID["x"], XS_GRID["y"], XS_GRID["M2h"]):
                    if len(pts) >= 6:
                        break
                    fix = [ctx.vars[n][0] == z3.RealVal(val) for n, val in (("x", gx), ("y", gy), ("M2h", gm)) if n in ctx.vars]
                    w = chk.prover.check(base + fix, cname + ":dyadic point", want_model=True)
                    if w.status == "sat":
                        pts.append(explore.model_to_assign(ctx, w.model))
                pts.append(explore.model_to_assign(ctx, v.model))
                bad = None
                for asg in pts:
                    vals = {n: float(asg.get(n, ctx.assign.get(n, 1))) for n in kin}
                    npoints += 1
                    e = xs_float_run(case, vals)
                    if e is not None and not is_clear_rejection(e):
                        bad = (vals, e)
                        break
                if bad is None:
                    chk.discharged += 1
                else:
                    chk.report(f"xs:{kind}:{type(bad[1]).__name__}", f"{cname}: internal {type(bad[1]).__name__}: {str(bad[1])[:100]} on the stratum {str(z3.simplify(z3.Not(cond)))[:120]}",
                               "xs", dict(case=case, values=bad[0]))
    chk.section("xs_singular", strata=nstrata, float_points_executed=npoints)


def run(chk, only=None):
    import yadism.coefficient_functions as cf
    from yadism import observable_name as on
    from yadism import sf as sfmod
    from yadism.coefficient_functions import kernels as K
    from yadism.esf import esf as esfmod
    from yadism.esf import tmc as tmcmod
    from yadism.runner import Runner

    chk.encode(K.import_local, K.generate_single_flavor_light, cf.Combiner.collect, cf.Combiner.collect_elems, K.Kernel.channel,
               esfmod.EvaluatedStructureFunction.__init__, tmcmod.EvaluatedStructureFunctionTMC.__init__,
               tmcmod.EvaluatedStructureFunctionTMC.get_result, sfmod.StructureFunction.get_esf, Runner.replace_nans_with_0)
    cells = lattice(chk.tier)
    chk.bounds = {"dispatch lattice": f"{len(cells)} cells of kinds x 8 heavynesses x 3 processes x 4 projectiles x 28 scheme/NfFF/part cells x PTO 0..3 "
                  f"({'complete product' if chk.tier == 'thorough' else 'pseudo-random 3% subset, fixed by hashing'}); Q2 symbolic",
                  "RSL parts": "every channel class x order x nf in {3} (quick) / 3..6, z in (0,1), masses symbolic",
                  "kinematics": "x, Q2 unrestricted reals, x_min in (0,1), M^2 >= 0; kinds x TMC 0..3"}
    chk.stub("LeProHQ/adani/tabulated coefficients/li2 -> atoms", "nf_default -> enumerated nf (C06)", "TMC front door: conv.convolution -> (0,0), bare "
             "ESF results empty (only the control flow and validation are the subject)")
    chk.assume("NaNs produced inside external libraries are outside (that is what the scrubber is for -- its totality is what is checked)",
               "rejection set: ValueError, NotImplementedError, RuntimeError with a message")
    # ---- module imports (a module that cannot be imported turns every request through it into an internal error) ----
    for fam in cm.FAMILIES if chk.first else []:
        for mname, mod in cm.family_modules(fam):
            chk.obligations += 1
            if isinstance(mod, Exception):
                chk.report(f"import:{fam}.{mname}:{type(mod).__name__}", f"module {fam}.{mname} cannot be imported: {type(mod).__name__}", "import",
                           dict(module=f"yadism.coefficient_functions.{fam}.{mname}"))
            else:
                chk.discharged += 1
    # ---- A ----
    if only in (None, "dispatch"):
        sigs = set()
        nrej = 0
        for cell in cells:
            cname = ":".join(f"{k}={v}" for k, v in cell.items())
            if not chk.mine(cname):
                continue
            with Ctx(chk.seed) as ctx, cm.fixed_nf(), stubs.cf_stubs():
                ex = explore.Explorer(ctx, max_paths=12, timeout_ms=3000)
                paths = ex.run(lambda: dispatch_cell(cell, ctx.var("Q2", 0, None, wlo=5, whi=90)))
                chk.paths += len(paths)
                for i, p in enumerate(paths):
                    chk.obligations += 1
                    chk.evaluations += 1
                    chk.nontrivial.add(cname)
                    if p.kind == "ok":
                        chk.discharged += 1
                        sigs.update(p.value)
                        continue
                    e = p.value
                    if isinstance(e, (real.NotEncodable, real.Concretised)):
                        chk.section("dispatch", not_encodable=1)
                        chk.notes.append(f"{cname}: not encodable: {e}")
                        chk.discharged += 1
                        continue
                    if is_clear_rejection(e):
                        nrej += 1
                        chk.discharged += 1
                        continue
                    chk.report(dispatch_key(cell, e), f"{cname}: internal {type(e).__name__}: {str(e)[:100]}", "dispatch",
                               dict(cell={k: (list(v) if isinstance(v, tuple) else v) for k, v in cell.items()}, Q2=float(p.assign.get("Q2", 50.0))))
        chk.section("dispatch", cells=len(cells), clean_rejections=nrej, distinct_kernel_orders=len(sigs))
    # ---- A2: the real compute_local (orders bookkeeping, scale-variation keys) for every PTODIS x PTO(evolution) pair ----
    if only in (None, "compute"):
        from yadism.esf import esf as esfmod2
        from yadism.esf import scale_variations as svmod

        def compute_cell(cell):
            cc = cm.make_coupling(cm.ew_params(values={}), cell["proc"], 11 if cell["proc"] != "CC" else 12)
            sv = svmod.ScaleVariations(order=cell["pto"], interpolator=None, activate_ren=cell["ren"], activate_fact=cell["fact"])
            sv.compute_raw = lambda nf: [sv.operators.setdefault((l, nf), np.zeros((3, 3))) for d in sv.raw_labels for l in d]
            cfg = cm.make_configs(cc, pto=cell["pto"], pto_evol=cell["pto_evol"], scheme=cell["sch"], nf_ff=cell["nf"], ZMq=tuple(cell["zm"]),
                                  threshold=cell["nf"], sv_manager=sv, interpolator=cm.StubInterpolator([1e-3, 0.1, 1.0], [None, None, None]))
            esf_ = cm.make_esf(cfg, f"{cell['kind']}_{cell['flav']}", 0.1, cell.get("Q2", 50.0))
            fake_conv = type("FakeConv", (), {"convolve_vector": staticmethod(lambda rsl, interp, chi: (np.zeros(3), np.zeros(3)))})
            with npshim.patched((esfmod2, "conv", fake_conv)):
                esf_.compute_local()
            res = esf_.res
            want = svmod.build_orders(cell["pto"])
            missing = [o for o in want if o not in res.orders]
            if missing:
                raise KeyError(f"orders {missing[:3]} missing from the result of a PTODIS={cell['pto']} run")
            return sorted(res.orders)

        REPLAYERS["compute"] = lambda args: _replay_compute(args, compute_cell)
        chk.replayers["compute"] = REPLAYERS["compute"]
        ccells = []
        for kind, flav, proc, (sch, nf, zm), pto, pto_evol, (ren, fact) in itertools.product(
                ["F2", "FL", "F3", "g1"], ["light", "total", "charm", "top"], ["NC", "CC"],
                [("ZM-VFNS", 4, (1, 1, 1)), ("FFNS", 3, (0, 0, 0)), ("FFN0", 3, (0, 0, 0))], [0, 1, 2, 3], [0, 1, 2, 3], [(True, True), (False, True)]):
            # 'top' in ZM-VFNS with 4 flavours: a point to which no channel contributes still answers with (zero) operators for every order
            if flav == "top" and sch != "ZM-VFNS":
                continue
            if chk.tier == "quick" and hash((kind, flav, proc, sch, pto, pto_evol, ren)) % 9 and not (flav == "top" and kind == "F2" and proc == "NC" and pto == pto_evol and ren):
                continue
            ccells.append(dict(kind=kind, flav=flav, proc=proc, sch=sch, nf=nf, zm=zm, pto=pto, pto_evol=pto_evol, ren=ren, fact=fact))
        ncomp = 0
        for cell in ccells:
            if not chk.mine(sorted(cell.items())):
                continue
            chk.obligations += 1
            chk.evaluations += 1
            try:
                with cm.fixed_nf():
                    compute_cell(cell)
                chk.discharged += 1
                ncomp += 1
            except Exception as e:  # noqa
                if is_clear_rejection(e):
                    chk.discharged += 1
                    continue
                chk.report(f"compute:{type(e).__name__}:{cell['kind']}:{cell['proc']}:pto{cell['pto']}:evol{cell['pto_evol']}",
                           f"compute_local({cell}): internal {type(e).__name__}: {str(e)[:100]}", "compute", dict(cell={k: (list(v) if isinstance(v, tuple) else v) for k, v in cell.items()}))
        chk.section("compute_local", cells=len(ccells), computed=ncomp)
    # ---- B ----
    if only in (None, "parts"):
        items, _ = c03.class_items(chk.tier)
        items = [it for it in items if it[6] == 3] if chk.tier == "quick" else items
        nparts = 0
        for key, fam, mname, cname_, cls, kws, nf, proc in items:
            if not chk.mine(key):
                continue
            for order in range(4):
                with Ctx(chk.seed) as ctx, stubs.cf_stubs():
                    ex = explore.Explorer(ctx, max_paths=32, timeout_ms=3000)
                    paths = ex.run(lambda: part_eval(ctx, cls, kws, nf, proc, order))
                    chk.paths += len(paths)
                    for i, p in enumerate(paths):
                        if p.kind == "exc":
                            e = p.value
                            if isinstance(e, (real.NotEncodable, real.Concretised)):
                                continue
                            chk.obligations += 1
                            if is_clear_rejection(e):
                                chk.discharged += 1
                                continue
                            mm = c03.model_masses(ctx, None, kws)
                            chk.report(f"ctor:{fam}.{mname}.{cname_}:o{order}:{type(e).__name__}", f"{key}/o{order}: {type(e).__name__}: {str(e)[:100]}",
                                       "part", dict(module=cls.__module__, cls=cname_, order=order, nf=nf, proc=proc, xB=mm["xB"], Q2=mm["Q2"],
                                                    masses={k: mm[k] for k in kws}, z=0.5, part="reg"))
                            continue
                        if not p.value:
                            continue
                        for part, st in p.value:
                            chk.obligations += 1
                            chk.evaluations += 1
                            nparts += 1
                            chk.nontrivial.add(f"{fam}.{mname}.{cname_}/o{order}/{part}")
                            if st is None:
                                chk.discharged += 1
                                continue
                            if st[0] == "not-encodable":
                                # e.g. int()/float() of a symbolic quantity inside a kernel: this part is not decided -- said, not skipped
                                # (no part of the pinned tree needs it, in either tier)
                                chk.section("parts_not_encodable", **{f"{key}/o{order}/{part}": st[1]})
                                chk.inconclusive_note(f"{key}/o{order}/{part}: not encodable ({st[1]})")
                                continue
                            e = st[1]
                            if is_clear_rejection(e):
                                chk.discharged += 1
                                continue
                            ctx.assign = dict(p.assign)
                            mm = c03.model_masses(ctx, None, kws)
                            chk.report(f"part:{fam}.{mname}.{cname_}:o{order}:{part}:{type(e).__name__}",
                                       f"{key}/o{order}/{part}: {type(e).__name__}: {str(e)[:100]} with the argument vector the class packs", "part",
                                       dict(module=cls.__module__, cls=cname_, order=order, nf=nf, proc=proc, xB=mm["xB"], Q2=mm["Q2"],
                                            masses={k: mm[k] for k in kws}, z=float(p.assign.get("z", 0.5)), part=part))
        chk.section("parts", evaluated=nparts)
    # ---- C ----
    if only in (None, "kin"):
        for kind, tmc in itertools.product(cm.KINDS, (0, 1, 2, 3)):
            if not chk.mine(f"kin{kind}{tmc}"):
                continue
            case = dict(kind=kind, tmc=tmc)
            cname = f"kinematics:{kind}/TMC={tmc}"
            with Ctx(chk.seed) as ctx:
                ex = explore.Explorer(ctx, max_paths=64, timeout_ms=3000)
                paths = ex.run(lambda: kin_case(ctx, case))
                chk.paths += len(paths)
                if ex.bound_hit:
                    chk.inconclusive_note(f"{cname}: path bound hit")
                for i, p in enumerate(paths):
                    ctx.assign = dict(p.assign)

                    def vals(model, ctx=ctx):
                        asg = explore.model_to_assign(ctx, model)
                        return {k: float(asg.get(k, ctx.assign.get(k, 0.5))) for k in ("x", "Q2", "xmin", "M2")}

                    if p.kind == "exc":
                        chk.obligations += 1
                        e = p.value
                        if isinstance(e, (real.NotEncodable, real.Concretised)):
                            chk.inconclusive_note(f"{cname}/path{i}: not encodable {e}")
                            continue
                        chk.report(f"kin:{kind}:{tmc}:{type(e).__name__}", f"{cname}: internal {type(e).__name__}: {str(e)[:100]}", "kin",
                                   dict(case=case, values=vals(None)))
                        continue
                    out, x, Q2, xmin = p.value
                    facts = ctx.facts() + p.pc
                    outside = z3.Or(x.t <= 0, x.t > 1, Q2.t <= 0, x.t < xmin.t)
                    # the same request on plain floats at this path's own point (real code, no proxies): proxies are not NumPy scalars,
                    # so an internal error that only a float64 triggers would otherwise stay invisible
                    chk.obligations += 1
                    chk.evaluations += 1
                    prev_ctx, real._CUR[0] = real._CUR[0], None
                    try:
                        fout = kin_case(vals(None), case)[0]
                    except Exception as e_:  # noqa
                        fout = e_
                    finally:
                        real._CUR[0] = prev_ctx
                    if not isinstance(fout, str) and not is_clear_rejection(fout):
                        chk.report(f"kin:{kind}:{tmc}:{type(fout).__name__}", f"{cname}: internal {type(fout).__name__}: {str(fout)[:100]} on floats at the "
                                   f"point of path {i}", "kin", dict(case=case, values=vals(None)))
                    else:
                        chk.discharged += 1
                        fkind = "ok" if fout == "ok" else "ValueError"
                        skind = "ok" if out == "ok" else "ValueError"
                        chk.tv_note(cname, fkind == skind, f"path {i}: symbolic outcome {skind}, float run of the real code at its point {fkind} ({vals(None)})")
                    if not isinstance(out, str):
                        chk.obligations += 1
                        if is_clear_rejection(out):
                            chk.discharged += 1
                        else:
                            chk.report(f"kin:{kind}:{tmc}:{type(out).__name__}", f"{cname}: internal {type(out).__name__}: {str(out)[:100]}", "kin",
                                       dict(case=case, values=vals(None)))
                        continue
                    if out == "ok":
                        chk.prove(f"{cname}/path{i}: a result is only produced inside the domain", z3.Not(outside), facts,
                                  key=f"kin:accepts-outside:{'TMC' if tmc else 'ESF'}:{kind if tmc else ''}",
                                  replay=lambda m, case=case, vals=vals: ("kin", dict(case=case, values=vals(m))),
                                  what=f"{cname}: kinematics outside 0<x<=1, Q2>0, x>=x_min are accepted")
                    else:
                        # rejections: outside the domain, or (TMC) the Nachtmann point below the grid -- C10 checks that clause
                        if tmc == 0:
                            chk.prove(f"{cname}/path{i}: rejection only outside the domain", outside, facts, key=f"kin:rejects-inside:{kind}",
                                      replay=lambda m, case=case, vals=vals: ("kin", dict(case=case, values=vals(m), expect_ok=True)),
                                      what=f"{cname}: admissible kinematics are rejected")
    # ---- C2: cross sections on the strata where a coefficient of the documented combination is singular ----
    if only in (None, "xs") and chk.first:
        run_xs_singular(chk)
    # ---- D ----
    if only in (None, "scrub") and chk.first:
        names = [f"{k}_{f}" for k in on.kinds if k != on.fake_kind for f in on.external_flavors] + [k for k in on.sfs]
        if chk.tier == "quick":
            names = names[::5] + ["F2_total", "g1_charm", "XSHERANC_total"]
        for name in names:
            for pos, bad in itertools.product([(0, 0), (0, 1), (1, 0)], [float("nan"), float("inf"), float("-inf")]):
                chk.obligations += 1
                chk.evaluations += 1
                try:
                    ok = scrub_case(name, pos, bad)
                except Exception as e:  # noqa
                    ok = False
                if ok:
                    chk.discharged += 1
                else:
                    chk.report("scrub:never-applied" if True else "", f"replace_nans_with_0 leaves a {bad} in {name}", "scrub",
                               dict(name=name, pos=list(pos), bad=str(bad)))
    # ---- E ----
    if only in (None, "ch") and chk.first:
        for t in ("check_is_valid_total", "check_constructor_rejects_cleanly"):
            target = f"yv.ch.h_obsname.{t}"
            r = chrun.crosshair_check(target, timeout=90)
            chk.obligations += 1
            chk.section("crosshair", **{t: f"{r['status']} ({r['secs']:.1f}s)"})
            if r["status"] == "confirmed":
                chk.discharged += 1
            elif r["status"] == "refuted":
                chk.report(f"crosshair:{t}", f"CrossHair counterexample for {t}: {r['text'][-300:]}", "crosshair", dict(target=target))
            else:
                chk.inconclusive_note(f"{t}: CrossHair {r['status']}")
    chk.exhaustive = chk.tier == "thorough"
    return chk.finish(
        explanation="A: the real Combiner, kernel generators, channel constructors and order methods run for every cell of the configuration "
        "lattice with Q2 symbolic (all threshold paths); an exception is admissible only if it is an explicit rejection. B: every RSL part "
        "of every channel class is evaluated at a symbolic z with the argument vector the class packs. C: the SF front door, the real ESF "
        "and TMC classes run on unrestricted symbolic x, Q2, x_min: z3 proves 'result => inside the domain' and 'rejection (TMC=0) => "
        "outside' on every path. D: the NaN/inf scrubber is run over the valid observable names. E: CrossHair confirms ObservableName is "
        "total on strings up to 4 characters.",
        rule="one obligation per (cell, path) / (class, order, part, path) / (kind, TMC, path) / (name, position, value); distinct = cell or class part",
    )
