"""C02 -- LO parton model and electroweak/CKM coupling weights.

The real CouplingConstants / CKM2Matrix / weight generators / kernel generators of /repo run on
symbolic electroweak parameters; z3 decides, for all parameter values, equality with the
independent PDG oracle (yv/refs/ew.py).
"""

import itertools

import numpy as np
import z3

from yv.engine import explore, harness, real, stubs
from yv.engine.real import S, Ctx
from yv.props import common as cm
from yv.refs import ew

PROJ = [11, -11, 12, -12]
MASKS_LIGHT = {3: "dus", 4: "dusc", 5: "duscb", 6: "duscbt"}


def _num(v):
    return v


def cases(tier):
    out = []
    nfs = [3, 4, 5, 6]
    for proc, pid, pv, nf in itertools.product(["EM", "NC"], PROJ, [False, True], nfs):
        if tier == "quick" and nf in (4,) and pid in (-12,):
            continue
        out.append(dict(kind="nc_weights", process=proc, pid=pid, pv=pv, nf=nf))
    for pid, pv, nf in itertools.product(PROJ, [False, True], nfs):
        masks = [MASKS_LIGHT[nf]] + [m for m, q in (("c", 4), ("b", 5), ("t", 6)) if q > nf or True]
        for mask in masks:
            if tier == "quick" and (nf, mask) not in ((3, "dus"), (3, "c"), (4, "dusc"), (4, "b"), (5, "t"), (6, "duscbt"),
                                                      (5, "duscb"), (4, "c")):
                continue
            out.append(dict(kind="cc_weights", pid=pid, pv=pv, nf=nf, mask=mask))
    for proc, pid, nf, kind in itertools.product(["EM", "NC", "CC"], PROJ, nfs, cm.KINDS):
        if proc == "CC" and kind in ("g1", "gL", "g4"):
            continue  # no CC implementation for polarised kinds (C16 decides how that is rejected)
        if tier == "quick" and not ((nf + abs(pid) + len(kind) + len(proc)) % 3 == 0 or nf == 3 and pid == 11):
            continue
        out.append(dict(kind="lo_light", process=proc, pid=pid, nf=nf, sf=kind))
    for proc, pid, nf, hq, kind in itertools.product(["EM", "NC", "CC"], PROJ, nfs, [4, 5, 6], ["F2", "F3", "FL", "g1", "g4"]):
        if proc == "CC" and kind in ("g1", "gL", "g4"):
            continue
        if hq > nf:
            continue
        if tier == "quick" and (nf + hq + abs(pid)) % 4 != 0:
            continue
        out.append(dict(kind="lo_heavylight", process=proc, pid=pid, nf=nf, hq=hq, sf=kind))
    for pid, nf, hq, kind in itertools.product(PROJ, [3, 4, 5], [4, 5, 6], ["F2", "F3"]):
        if hq <= nf:
            continue
        if tier == "quick" and (nf + hq + abs(pid)) % 2 != 0:
            continue
        out.append(dict(kind="lo_heavy_cc", pid=pid, nf=nf, hq=hq, sf=kind))
    # massive-scheme limit FFN0: LO is the massless parton model with the light quarks and the tagged heavy quark as incoming partons
    for proc, pid, nfff, flav, kind in itertools.product(["EM", "NC", "CC"], PROJ, [3, 4], ["light", "charm", "bottom", "top", "total"], ["F2", "F3", "FL"]):
        if proc == "EM" and kind == "F3":
            continue
        if tier == "quick" and (nfff + abs(pid) + len(flav) + len(kind) + len(proc)) % 3 and not (proc == "CC" and nfff == 3 and flav in ("bottom", "total") and pid == 11):
            continue
        out.append(dict(kind="lo_ffn0", process=proc, pid=pid, nf=nfff, flav=flav, sf=kind))
    # the FONLL building block FONLL-FFN0 (exactly one massive quark, NfFF+1): same limit for that quark
    for proc, pid, nfff, kind in itertools.product(["EM", "NC", "CC"], PROJ, [3, 4], ["F2", "F3"]):
        if proc == "EM" and kind == "F3":
            continue
        if tier == "quick" and (nfff + abs(pid) + len(kind) + len(proc)) % 2:
            continue
        out.append(dict(kind="lo_ffn0", process=proc, pid=pid, nf=nfff, flav={3: "charm", 4: "bottom"}[nfff], sf=kind, scheme="FONLL-FFN0"))
    for pid in PROJ:
        for mode in ("phph", "phZ", "ZZ", "WW"):
            out.append(dict(kind="propagator", pid=pid, mode=mode))
    out.append(dict(kind="from_dict"))
    return out


def _lo_sum(kernels_list):
    """sum over kernels of weight * LO delta coefficient, per parton (LO RSLs are pure deltas)."""
    tot = {}
    for k in kernels_list:
        if not k.has_order(0):
            continue
        rsl = k.coeff[0]()
        if rsl is None:
            continue
        if rsl.reg is not None or rsl.sing is not None:
            raise AssertionError("LO coefficient with a non-delta part")
        c = rsl.loc(0.5, rsl.args["loc"]) if rsl.loc is not None else 0
        # LO operator at a node = convolution_point * weight * delta: keep chi/x (1 for massless kernels)
        c = c * (k.coeff.convolution_point() / k.coeff.ESF.x)
        for p, w in k.partons.items():
            tot[p] = tot.get(p, 0) + w * c
    return tot


def pairs_for(case, P, Q2):
    """[(label, implementation value, oracle value)] for one case on parameters P (S or float)."""
    from yadism.coefficient_functions import kernels as K
    from yadism.coefficient_functions.heavy import kernels as HK
    from yadism.coefficient_functions.light import kernels as LK

    s2, MZ2, MW2, pol, dl = P["sin2tw"], P["MZ2"], P["MW2"], P["pol"], P["propcorr"]
    V2 = cm.ckm_nested(P)
    out = []
    kind = case["kind"]
    if kind == "nc_weights":
        cc = cm.make_coupling(P, case["process"], case["pid"])
        nf, pv, pid = case["nf"], case["pv"], case["pid"]
        w = LK.nc_weights(cc, Q2, nf, pv)
        signs = [ew.helicity_sign(pid)] if abs(pid) == 11 else [None]
        tot = 0
        for q in range(1, nf + 1):
            if abs(pid) == 11:
                ref = ew.nc_weight(q, pv, case["process"], pid, Q2, MZ2, s2, pol, dl)
                out.append((f"ns[{q}]", w["ns"][q], ref))
                out.append((f"ns[{-q}]", w["ns"][-q], -ref if pv else ref))
            else:
                # neutrino beams: PDG gives no helicity-dependent formula; either sign convention for the
                # helicity is admissible, the unpolarised value is fixed.
                r1 = ew.nc_weight(q, pv, case["process"], pid, Q2, MZ2, s2, pol, dl, sign=+1)
                r2 = ew.nc_weight(q, pv, case["process"], pid, Q2, MZ2, s2, pol, dl, sign=-1)
                out.append((f"ns[{q}]", w["ns"][q], (r1, r2)))
                ref = None
            tot = tot + w["ns"][q]
        # averages (documented: charge average over the nf flavours)
        if pv:
            for q in range(1, nf + 1):
                out.append((f"v[{q}]", w["v"][q], tot / nf))
                out.append((f"v[{-q}]", w["v"][-q], -(tot / nf)))
            out.append(("keys", sorted(w.keys()) == ["ns", "v"], True))
        else:
            out.append(("g[21]", w["g"][21], tot / nf))
            for q in range(1, nf + 1):
                out.append((f"s[{q}]", w["s"][q], tot / nf))
                out.append((f"s[{-q}]", w["s"][-q], tot / nf))
        # heavy NC weights use the same couplings restricted to VV / AA of the heavy quark
        if not pv and abs(pid) == 11:
            for ihq in (4, 5, 6):
                hw = HK.nc_weights(cc, Q2, nf, ihq, pv)
                full = ew.nc_weight(ihq, False, case["process"], pid, Q2, MZ2, s2, pol, dl)
                out.append((f"heavy[{ihq}].gVV+gAA", hw["gVV"][21] + hw["gAA"][21], full))
                out.append((f"heavy[{ihq}].sVV+sAA[1]", hw["sVV"][1] + hw["sAA"][-1], full))
                out.append((f"heavy[{ihq}].s-keys", sorted(hw["sVV"]) == sorted([*range(1, nf + 1), *range(-nf, 0)]), True))
    elif kind == "cc_weights":
        cc = cm.make_coupling(P, "CC", case["pid"])
        nf, pv, pid, mask = case["nf"], case["pv"], case["pid"], case["mask"]
        w = K.cc_weights(cc, Q2, mask, nf, pv)
        we = K.cc_weights_even(cc, Q2, mask, nf, pv)
        wo = K.cc_weights_odd(cc, Q2, mask, nf, pv)
        avg = 0
        for q in range(1, min(nf + 2, 7)):
            avg = avg + ew.cc_quark_strength(q, mask, V2)
        avg = avg / len(mask) / 2
        for q in range(1, nf + 1):
            for p in (q, -q):
                ref = ew.cc_lo_weight(p, pv, pid, mask, V2)
                out.append((f"ns[{p}]", w["ns"].get(p, 0), ref))
                out.append((f"even+odd[{p}]", we["ns"].get(p, 0) + wo["ns"].get(p, 0), ref))
                # even part is charge-conjugation even (pc) / carries the F3 sign on both (pv); odd part flips
                out.append((f"even[{p}]-even[{-p}]", we["ns"].get(p, 0) - we["ns"].get(-p, 0), 0))
                out.append((f"odd[{p}]+odd[{-p}]", wo["ns"].get(p, 0) + wo["ns"].get(-p, 0), 0))
                out.append((f"s_even[{p}]", we["s"].get(p, 0), avg))
                out.append((f"v_odd[{p}]", wo["v"].get(p, 0), avg if p > 0 else -avg))
        gsign = -1 if (pv and pid in (11, -12)) else 1
        out.append(("g[21]", w["g"][21], gsign * avg))
        out.append(("g_even[21]", we["g"][21], avg))
        out.append(("ns-keys", sorted(w["ns"]) == sorted(p for p in [*range(1, nf + 1), *range(-nf, 0)]
                                                           if ((abs(p) % 2 == 1) == (pid in (12, -11))) == (p > 0)), True))
    elif kind in ("lo_light", "lo_heavylight", "lo_heavy_cc"):
        proc = case.get("process", "CC")
        pid, nf, sf = case["pid"], case["nf"], case["sf"]
        cc = cm.make_coupling(P, proc, pid)
        hq = case.get("hq")
        flav = {None: "light", 4: "charm", 5: "bottom", 6: "top"}[hq]
        m2 = [2.0, 20.0, 30000.0]
        cfg = cm.make_configs(cc, pto=0, threshold=nf, ZMq=(True, True, True) if kind != "lo_heavy_cc" else
                              tuple(q <= nf for q in (4, 5, 6)), m2hq=m2, scheme="ZM-VFNS" if kind != "lo_heavy_cc" else "FFNS")
        esf = cm.make_esf(cfg, f"{sf}_{flav}", 0.1, Q2)
        pv = sf in ("F3", "gL", "g4")
        if kind == "lo_light":
            ks = LK.generate(esf, nf)
            mask = MASKS_LIGHT[nf]
        elif kind == "lo_heavylight":
            ks = K.generate_single_flavor_light(esf, nf, hq)
            mask = "dusc bt".replace(" ", "")[hq - 1]
        else:
            ks = HK.generate(esf, nf, ihq=hq)
            mask = "duscbt"[hq - 1]
        tot = _lo_sum(ks)
        for q in range(1, nf + 1):
            for p in (q, -q):
                if proc == "CC":
                    ref = ew.cc_lo_weight(p, pv, pid, mask, V2)
                    if kind == "lo_heavy_cc" and not pv:
                        # slow rescaling: F2_h(x) = chi * w * f(chi), chi = x (1 + m2/Q2); xF3_h(x) = x * w * f(chi)
                        ref = ref * (1 + m2[hq - 4] / Q2)
                else:
                    if kind == "lo_heavylight" and q != hq:
                        ref = 0
                    elif abs(pid) == 11:
                        ref = ew.nc_weight(q, pv, proc, pid, Q2, MZ2, s2, pol, dl)
                        ref = -ref if (pv and p < 0) else ref
                    else:
                        r1 = ew.nc_weight(q, pv, proc, pid, Q2, MZ2, s2, pol, dl, sign=+1)
                        r2 = ew.nc_weight(q, pv, proc, pid, Q2, MZ2, s2, pol, dl, sign=-1)
                        if pv and p < 0:
                            r1, r2 = -r1, -r2
                        ref = (r1, r2)
                if sf in ("FL", "gL"):
                    ref = 0 if not isinstance(ref, tuple) else (0, 0)  # Callan-Gross: no LO longitudinal part
                out.append((f"LO[{p}]", tot.get(p, 0), ref))
        out.append(("LO[21]", tot.get(21, 0), 0))
        extra = [p for p in tot if abs(p) > nf and p != 21]
        out.append(("LO-no-inactive-partons", [p for p in extra if not _is_zero(tot[p])] == [], True))
    elif kind == "lo_ffn0":
        proc, pid, nfff, flav, sf = case["process"], case["pid"], case["nf"], case["flav"], case["sf"]
        pv = sf in ("F3", "gL", "g4")
        sch = case.get("scheme", "FFN0")
        ks = cm.run_combiner(P, obs=f"{sf}_{flav}", process=proc, pid=pid, Q2=Q2, scheme=sch, nf=nfff,
                             ZMq=tuple(q <= nfff for q in (4, 5, 6)) if sch == "FFN0" else tuple(q != nfff + 1 for q in (4, 5, 6)), pto=0)
        tot = _lo_sum(ks)
        tagged = {"light": [None], "charm": [4], "bottom": [5], "top": [6], "total": [None, 4, 5, 6]}[flav]
        tagged = [h for h in tagged if h is None or h > nfff]  # flavours <= NfFF are part of 'light' in this scheme
        if flav != "total" and not tagged:
            tagged = None  # e.g. F2_charm with NfFF=4: the zero-mass single-flavour piece (checked by lo_heavylight / C07)
        if tagged is not None:
            for q in range(1, 7):
                for p in (q, -q):
                    ref = 0
                    for h in tagged:
                        if not (q <= nfff or q == h):
                            continue  # incoming partons: the light quarks and the tagged heavy quark itself
                        if proc == "CC":
                            mask = MASKS_LIGHT[nfff] if h is None else "duscbt"[h - 1]
                            ref = ref + ew.cc_lo_weight(p, pv, pid, mask, V2)
                        else:
                            if (h is None) != (q <= nfff):
                                continue  # NC: flavour diagonal -- light quarks in 'light', the heavy quark in its own observable
                            if abs(pid) == 11:
                                r = ew.nc_weight(q, pv, proc, pid, Q2, MZ2, s2, pol, dl)
                                ref = ref + (-r if (pv and p < 0) else r)
                            else:
                                ref = None
                                break
                    if ref is None:
                        continue
                    if sf == "FL":
                        ref = 0
                    out.append((f"LO[{p}]", tot.get(p, 0), ref))
            out.append(("LO[21]", tot.get(21, 0), 0))
    elif kind == "propagator":
        cc = cm.make_coupling(P, "NC", case["pid"])
        eta = ew.eta_gamma_z(Q2, MZ2, s2, dl)
        mode = case["mode"]
        got = cc.propagator_factor(mode, Q2)
        if mode == "phph":
            ref = 1
        elif mode == "phZ":
            ref = eta
        elif mode == "ZZ":
            ref = eta * eta
        else:
            # eta_W = (eta_gZ/2 * (1+Q2/MZ2)/(1+Q2/MW2))^2 (docs/theory/fact.rst)
            r = eta / 2 * (1 + Q2 / MZ2) / (1 + Q2 / MW2)
            ref = r * r
        out.append((f"eta[{mode}]", got, ref))
        el, gv, ga = ew.lepton_couplings(case["pid"], s2)
        out.append(("vectorial(lepton)", cc.vectorial_coupling(abs(case["pid"])), gv))
        for q in range(1, 7):
            e, gvq, gaq = ew.quark_couplings(q, s2)
            out.append((f"vectorial({q})", cc.vectorial_coupling(q), gvq))
            qph, qZ = cc.nc_partonic_coupling(q)
            out.append((f"nc_partonic({q})", qph["V"] * 1000 + qph["A"] * 100 + qZ["V"] * 10 + qZ["A"], e * 1000 + gvq * 10 + gaq))
    elif kind == "from_dict":
        from yadism.coefficient_functions.coupling_constants import CouplingConstants

        MZ = P["MZ2"]  # used as the linear mass here
        theory = {"CKM": [[P["V2_ud"], P["V2_us"], P["V2_ub"]], [P["V2_cd"], P["V2_cs"], P["V2_cb"]],
                          [P["V2_td"], P["V2_ts"], P["V2_tb"]]], "MZ": MZ, "SIN2TW": s2, "MW": P["MW2"]}
        obs = {"prDIS": "NC", "ProjectileDIS": "positron", "PolarizationDIS": pol, "PropagatorCorrection": dl,
               "NCPositivityCharge": None}
        c1 = CouplingConstants.from_dict(theory, obs)
        out.append(("MZ2", c1.theory_config["MZ2"], MZ * MZ))
        out.append(("MW2", c1.theory_config["MW2"], P["MW2"] * P["MW2"]))
        out.append(("s2", c1.theory_config["sin2theta_weak"], s2))
        out.append(("CKM[u,s]", c1.theory_config["CKM"]["u", "s"], P["V2_us"] * P["V2_us"]))
        out.append(("CKM[6,1]", c1.theory_config["CKM"][6, 1], P["V2_td"] * P["V2_td"]))
        out.append(("pid", c1.obs_config["projectilePID"] == -11, True))
        th2 = dict(theory)
        th2["MW"] = None
        c2 = CouplingConstants.from_dict(th2, obs)
        out.append(("MW2 default", c2.theory_config["MW2"], MZ * MZ / (1 - s2)))
    return out


def _is_zero(v):
    if isinstance(v, S):
        return v.const is not None and v.const == 0
    return v == 0


def _eq_term(impl, ref):
    if isinstance(ref, tuple):
        return z3.Or(*[S.lift(impl).t == S.lift(r).t for r in ref])
    return S.lift(impl).t == S.lift(ref).t


def replay_case(args):
    P = cm.ew_params(values=args["params"])
    prs = pairs_for(args["case"], P, float(args["params"].get("Q2", 10.0)))
    bad = []
    for lab, impl, ref in prs:
        if args.get("label") and lab != args["label"]:
            continue
        if isinstance(ref, bool) or isinstance(impl, bool):
            if bool(impl) != bool(ref):
                bad.append((lab, impl, ref))
            continue
        refs = ref if isinstance(ref, tuple) else (ref,)
        if all(abs(float(impl) - float(r)) > 1e-9 * max(1.0, abs(float(r))) for r in refs):
            bad.append((lab, float(impl), [float(r) for r in refs]))
    if bad:
        return True, f"{args['case']}: {bad[:3]}"
    return False, "implementation equals the oracle at this point"


REPLAYERS = {"case": replay_case}


def float_pairs_case(args):
    with cm.fixed_nf():
        return pairs_for(args["case"], cm.ew_params(values=args["params"]), float(args["params"].get("Q2", 10.0)))


REPLAYERS["case:pairs"] = float_pairs_case


def run(chk, only=None):
    from yadism.coefficient_functions import coupling_constants as ccmod
    from yadism.coefficient_functions import kernels as K
    from yadism.coefficient_functions.heavy import kernels as HK
    from yadism.coefficient_functions.light import kernels as LK

    chk.encode(ccmod.CouplingConstants.get_weight, ccmod.CouplingConstants.leptonic_coupling,
               ccmod.CouplingConstants.propagator_factor, ccmod.CouplingConstants.partonic_coupling,
               ccmod.CouplingConstants.vectorial_coupling, ccmod.CouplingConstants.nc_partonic_coupling,
               ccmod.CouplingConstants.from_dict, ccmod.CKM2Matrix.masked, ccmod.CKM2Matrix.__call__,
               ccmod.CKM2Matrix.__getitem__, ccmod.CKM2Matrix.__init__, LK.nc_weights, LK.generate, K.cc_weights,
               K.cc_weights_even, K.cc_weights_odd, K.generate_single_flavor_light, HK.generate, HK.nc_weights)
    allc = cases(chk.tier)
    chk.bounds = {"continuous": "Q2>0, sin2tw in (0,1), MZ2>0, MW2>0, pol in [-1,1], propagator correction <1, nine CKM^2 >= 0: "
                                "all symbolic, unbounded", "discrete": f"{len(allc)} cases (projectile x process x nf 3..6 x kind x mask)",
                  "neutrino NC helicity": "either sign convention accepted (PDG gives none); unpolarised value fixed"}
    chk.assume("PDG tree-level relation G_F M_Z^2/(2 sqrt2 pi alpha) = 1/(4 sin^2 cos^2) for eta_gammaZ",
               "docs/theory/fact.rst prints eta_gammaZ = 4 sin^2/(1-sin^2)*..., which is not the PDG expression; the oracle follows PDG",
               "FL/gL have no LO term (Callan-Gross); heavy-CC FL (Gluck et al. mass prefactor) is outside this check")
    n_pairs = 0
    for case in allc:
        if only and only not in case["kind"]:
            continue
        with Ctx(chk.seed) as ctx, cm.fixed_nf(), cm.generic_drop_empty():
            cname = ":".join(f"{k}={v}" for k, v in case.items())

            def body(case=case):
                P = cm.ew_params(ctx)
                Q2 = ctx.var("Q2", 0, None, wlo=1, whi=20000)
                with stubs.cf_stubs():
                    return pairs_for(case, P, Q2)

            ex = explore.Explorer(ctx, max_paths=16, timeout_ms=3000)
            paths = ex.run(body)
            chk.paths += len(paths)
            if ex.bound_hit:
                chk.inconclusive_note(f"{cname}: path bound hit")
            for p in paths:
                ctx.assign = dict(p.assign)
                if p.kind == "exc":
                    e = p.value
                    # the code raised on a documented configuration: C16 owns that; here it blocks the comparison
                    chk.notes.append(f"{case}: raises {type(e).__name__}: {str(e)[:80]}")
                    chk.section("raised", n=1)
                    key = f"raise:{case['kind']}:{case.get('process', 'CC')}:{case.get('sf', '')}:{case.get('hq', '')}"
                    chk.obligations += 1
                    chk.report(key, f"weights cannot be computed for {case}: {type(e).__name__}: {str(e)[:80]}", "raise", dict(case=case))
                    continue
                prs = p.value
                n_pairs += len(prs)

                def mk_replay(lab, ctx=ctx, case=case):
                    def rp(model):
                        asg = explore.model_to_assign(ctx, model)
                        params = {k: float(asg.get(k, ctx.assign.get(k, 1))) for k in cm.EW_PARAMS + ["Q2"]}
                        return "case", dict(case=case, params=params, label=lab)

                    return rp

                harness.prove_pairs(chk, cname, prs, ctx.facts() + p.pc, mk_replay,
                                    lambda lab, case=case: f"weight:{case['kind']}:{lab}:{case.get('process', 'CC')}:pid{case.get('pid')}",
                                    sample={"case": case, "pairs": [l for l, _, _ in prs][:12], "verdict": "all equal for all parameters"})
    # vacuity: a perturbed oracle (sign of the interference) must be refuted and replayed
    with Ctx(chk.seed) as ctx:
        P = cm.ew_params(ctx)
        Q2 = ctx.var("Q2", 0, None, wlo=1, whi=20000)
        cc = cm.make_coupling(P, "NC", 11)
        w = cc.get_weight(2, Q2, "VV") + cc.get_weight(2, Q2, "AA")
        ref = ew.nc_weight(2, False, "NC", -11, Q2, P["MZ2"], P["sin2tw"], P["pol"], P["propcorr"])
        chk.expect_sat("perturbed-oracle(e+ formula for e-)", ctx.facts() + [w.t != S.lift(ref).t], what="perturbation")
        chk.expect_sat("domain", ctx.facts())
    chk.section("pairs", compared=n_pairs, cases=len(allc))
    chk.exhaustive = chk.tier == "thorough"
    return chk.finish(
        explanation="The real CouplingConstants/CKM2Matrix/weight and kernel generators are executed on symbolic electroweak "
        "parameters (z3 reals); every resulting weight, and the sum over kernels of weight x LO delta coefficient per parton, "
        "is proved equal to an independent PDG/CKM oracle for ALL parameter values (nonlinear real arithmetic, unsat of the "
        "negation). The discrete lattice (projectile, process, nf, kind, CKM mask) is enumerated.",
        rule="one obligation per (case, parton/label) pair; non-trivial = the case involves symbolic parameters; distinct = distinct case",
    )


def replay_raise(args):
    case = args["case"]
    P = cm.ew_params(values={})
    with cm.fixed_nf():
        try:
            pairs_for(case, P, 10.0)
        except Exception as e:  # noqa
            return True, f"{type(e).__name__}: {e}"
    return False, "no exception on floats"


REPLAYERS["raise"] = replay_raise
