"""C03 -- every coefficient/splitting kernel is one well-defined distribution.

For every RSL producer of /repo (discovered by introspection, executed through the real
constructors on proxies) the solver is asked

    forall z in (0,1), masses:  d loc/dz (z) + sing(z) == 0          (exact families)
    forall ...               : |d loc/dz + sing| <= tau * envelope   (transcribed parametrisations)

plus the structural clauses (sing => loc, no sing => loc' == 0) and the definedness obligations
(denominators != 0, log arguments > 0, sqrt arguments >= 0) met on every path.
"""

import importlib
import math
import traceback

import numpy as np
import z3

from yv.engine import explore, real, stubs
from yv.engine.real import S, Dual, Env, Ctx
from yv.props import common as cm

TAU = real.Fr(1, 10000)
TAU_NOISE = real.Fr(1, 10**10)
# modules whose numbers are transcriptions of published fits with 5-6 significant digits
PARAM_MODULE_MARKERS = (".light.nnlo.", ".light.n3lo.")


def _is_param(fn):
    m = getattr(fn, "__module__", "") or ""
    return any(k in m for k in PARAM_MODULE_MARKERS)


def _fn_name(fn):
    return f"{getattr(fn, '__module__', '?')}.{getattr(fn, '__qualname__', getattr(fn, '__name__', '?'))}"


# ---------------------------------------------------------------------------------------------
# items
# ---------------------------------------------------------------------------------------------


def class_items(tier):
    """(key, builder) for every channel class x nf; builder(ctx, T) -> object under check."""
    nfs = [3, 4, 5, 6] if tier == "thorough" else [3, 5]
    items = []
    import_failures = []
    for fam in cm.FAMILIES:
        for mname, mod in cm.family_modules(fam):
            if isinstance(mod, Exception):
                import_failures.append((fam, mname, mod))
                continue
            proc = "CC" if mname.endswith("_cc") else "NC"
            for cname, cls in cm.channel_classes(mod):
                kws = cm.ctor_kwargs(cls)
                for nf in nfs:
                    items.append((f"{fam}.{mname}.{cname}/nf{nf}", fam, mname, cname, cls, kws, nf, proc))
    return items, import_failures


def build(ctx, cls, kws, nf, proc):
    xB = ctx.var("xB", 0, 1)
    Q2 = ctx.var("Q2", 0, None, wlo=1, whi=50)
    masses = {}
    for k in kws:
        masses[k] = ctx.var(k, 0, None, wlo=1, whi=30)
    esf = cm.StubESF(xB, Q2, proc, cm.Info())
    return cls(esf, nf, **masses)


# ---------------------------------------------------------------------------------------------
# evaluation of one RSL under the current explorer path
# ---------------------------------------------------------------------------------------------


# local parts whose identity needs functional relations between complex trilogarithms at z, 1-z and 1/(1-z): the
# exact query returns a spurious candidate (atoms are free) and the tolerance query does not finish (188 s): not decided,
# listed in the evidence as outside the claim instead of being reported either way
UNDECIDED_LOC = set()  # (was: asy.g1_nc_raw.c2ns_NNLL_loc; decided exactly since constants are read pi-consistently)


def eval_rsl(ctx, rsl, mode):
    """Returns dict with residual term(s) for the identity; runs inside an explorer run."""
    if rsl.loc is not None and _fn_name(rsl.loc) in UNDECIDED_LOC:
        raise real.NotEncodable(f"{_fn_name(rsl.loc)}: trilogarithm relations not decidable here (listed as outside the claim)")
    z = ctx.var("z", 0, 1)
    out = {"has": (rsl.reg is not None, rsl.sing is not None, rsl.loc is not None)}
    if rsl.loc is None and rsl.sing is None:
        return out
    if rsl.loc is None:
        out["structural"] = "sing without loc"
        return out
    if mode == "exact":
        zd = Dual(z, 1)
        loc = rsl.loc(zd, rsl.args["loc"])
        dloc = loc.d if isinstance(loc, Dual) else S.lift(0)
        sing = S.lift(rsl.sing(z, rsl.args["sing"])) if rsl.sing is not None else S.lift(0)
        out["resid"] = dloc + sing
    else:
        ze = Env.lift(z)
        zd = Dual(ze, Env.lift(1))
        loc = rsl.loc(zd, rsl.args["loc"])
        dloc = loc.d if isinstance(loc, Dual) else Env.lift(0)
        sing = Env.lift(rsl.sing(ze, rsl.args["sing"])) if rsl.sing is not None else Env.lift(0)
        r = dloc + sing
        out["resid"] = r.v
        out["env"] = r.m
    return out


def eval_defined(ctx, rsl):
    """Evaluate every part at symbolic z with definedness tracking (obligations land in ctx)."""
    z = ctx.var("z", 0, 1)
    res = {}
    for part in ("reg", "sing", "loc"):
        f = getattr(rsl, part)
        if f is None:
            continue
        try:
            v = f(z, rsl.args[part])
            res[part] = "ok"
            # a part is a FUNCTION of its argument: evaluated again (after another point in between) it returns the same term --
            # hidden state (a list that grows, a value folded in place) would make the convolved object depend on the quadrature's order
            f(z * real.Fr(1, 2) + real.Fr(1, 4), rsl.args[part])
            v2 = f(z, rsl.args[part])
            a, b = S.lift(v), S.lift(v2)
            if not a.t.eq(b.t) and not (a.const is not None and a.const == b.const):
                res["impure:" + part] = (a, b)
        except (real.NotEncodable, real.Concretised, TypeError) as e:
            res[part] = f"not-encodable: {type(e).__name__}: {str(e)[:80]}"
    return res


def replay_pure(args):
    obj = _float_obj(args)
    rsl = obj[args["order"]]()
    f = getattr(rsl, args["part"])
    z = args.get("z", 0.37)
    a = float(f(z, rsl.args[args["part"]]))
    f(z / 2 + 0.25, rsl.args[args["part"]])
    b = float(f(z, rsl.args[args["part"]]))
    if abs(a - b) > 1e-12 * max(1.0, abs(a)):
        return True, f"{args['cls']}/o{args['order']}/{args['part']} at z={z}: first evaluation {a!r}, third evaluation {b!r}"
    return False, "same value"


# ---------------------------------------------------------------------------------------------
# float replay
# ---------------------------------------------------------------------------------------------


def _float_obj(args):
    mod = importlib.import_module(args["module"])
    cls = getattr(mod, args["cls"])
    esf = cm.StubESF(args["xB"], args["Q2"], args["proc"], cm.Info())
    return cls(esf, args["nf"], **args["masses"])


def _num_resid(rsl, z):
    """loc'(z) + sing(z) by 5-point stencil on floats; returns (resid, scale)."""
    h = min(1e-4, z / 4, (1 - z) / 4)
    f = lambda t: float(rsl.loc(t, rsl.args["loc"]))
    d = (-f(z + 2 * h) + 8 * f(z + h) - 8 * f(z - h) + f(z - 2 * h)) / (12 * h)
    s = float(rsl.sing(z, rsl.args["sing"])) if rsl.sing is not None else 0.0
    return d + s, abs(d) + abs(s)


def replay_identity(args):
    """Reproduces iff on floats |loc'(z)+sing(z)| exceeds the tolerance at one of the candidate z."""
    if args.get("kind") == "label":
        from yadism.coefficient_functions import splitting_functions as split

        rsl = None
        for d in split.raw_labels:
            if args["label"] in d:
                rsl = d[args["label"]](args["nf"])
    elif args.get("kind") == "generic":
        from yadism.coefficient_functions.partonic_channel import RSL

        rsl = RSL.from_distr_coeffs(None, args["coeffs"])
    else:
        obj = _float_obj(args)
        rsl = obj[args["order"]]()
    if rsl is None:
        return False, "no RSL on floats"
    if rsl.loc is None:
        return (rsl.sing is not None), "sing present without loc"
    tol = float(args.get("tau", 0.0)) * 0.5 + 1e-6
    worst = None
    for z in args["zs"]:
        if not (0 < z < 1):
            continue
        try:
            r, sc = _num_resid(rsl, z)
        except Exception as e:  # noqa
            return True, f"evaluation raised {e!r} at z={z}"
        if not (math.isfinite(r) and math.isfinite(sc)):
            return True, f"non-finite value at z={z}"
        if abs(r) > tol * max(sc, 1e-12):
            worst = (z, r, sc)
            break
    if worst is None:
        return False, f"identity holds numerically at {len(args['zs'])} points"
    z, r, sc = worst
    return True, f"loc'(z)+sing(z) = {r:.6g} at z={z:.6g} (|loc'|+|sing| = {sc:.6g})"


def replay_defined(args):
    obj = _float_obj(args)
    rsl = obj[args["order"]]()
    if rsl is None:
        return False, "no RSL on floats"
    f = getattr(rsl, args["part"])
    try:
        with np.errstate(all="ignore"):
            v = f(args["z"], rsl.args[args["part"]])
        v = complex(v)
    except Exception as e:  # noqa
        return True, f"{args['part']}({args['z']}) raised {e!r}"
    if not (math.isfinite(v.real) and v.imag == 0):
        return True, f"{args['part']}({args['z']}) = {v}"
    return False, f"{args['part']}({args['z']}) = {v} is finite"


REPLAYERS = {"pure": replay_pure, "identity": replay_identity, "defined": replay_defined}

GRID = [0.013, 0.11, 0.27, 0.4, 0.5, 0.63, 0.77, 0.9, 0.985]


def candidate_zs(ctx, model):
    zs = []
    asg = explore.model_to_assign(ctx, model) if model is not None else {}
    if "z" in asg:
        zs.append(float(asg["z"]))
    for at in ctx.atoms.values():
        if at.fn == "log":
            try:
                val = model.eval(at.var, model_completion=False)
                fr = explore._val_to_frac(val)
                if fr is not None:
                    e = math.exp(float(fr))
                    zs += [e, 1 - e]
            except Exception:  # noqa
                pass
    zs = [z for z in zs if 1e-6 < z < 1 - 1e-6]
    return zs + GRID


def model_masses(ctx, model, kws):
    asg = explore.model_to_assign(ctx, model) if model is not None else {}
    out = {}
    for k in ["xB", "Q2"] + list(kws):
        v = float(asg.get(k, ctx.assign.get(k, 1)))
        out[k] = v
    return out


# ---------------------------------------------------------------------------------------------
# main
# ---------------------------------------------------------------------------------------------


def check_item(chk, item, seed, tier):
    key, fam, mname, cname, cls, kws, nf, proc = item
    chk.encode(cls)
    n_rsl = 0
    for order in range(4):
        for mode in ("exact", "env"):
            with Ctx(seed) as ctx:
                state = {}

                def body():
                    obj = build(ctx, cls, kws, nf, proc)
                    rsl = obj[order]()
                    if rsl is None:
                        return None
                    rec = eval_rsl(ctx, rsl, mode)
                    rec["fns"] = [f for f in (rsl.reg, rsl.sing, rsl.loc) if f is not None]
                    rec["param"] = any(_is_param(f) for f in (rsl.sing, rsl.loc) if f is not None)
                    return rec

                with stubs.cf_stubs():
                    ex = explore.Explorer(ctx, max_paths=64 if tier == "quick" else 512, timeout_ms=5000)
                    paths = ex.run(body)
                chk.paths += len(paths)
                chk.evaluations += len(paths)
                if ex.bound_hit:
                    chk.inconclusive_note(f"{key}/o{order}: path bound hit")
                retry_env = False
                for p in paths:
                    if p.kind == "exc":
                        e = p.value
                        if isinstance(e, (real.NotEncodable, real.Concretised)):
                            chk.notes.append(f"{key}/o{order}: not encodable: {e}")
                            chk.section("skipped_not_encodable", n=1)
                            continue
                        # an exception of the code itself on a feasible path: C16 reports those
                        chk.notes.append(f"{key}/o{order}: raises {type(e).__name__}: {str(e)[:100]}")
                        chk.section("raises_on_path", n=1)
                        continue
                    rec = p.value
                    if rec is None or "resid" not in rec and "structural" not in rec:
                        continue
                    n_rsl += 1 if mode == "exact" else 0
                    for f in rec["fns"]:
                        chk.encode(f)
                    label = f"{key}/o{order}/path{paths.index(p)}"
                    args = dict(module=cls.__module__, cls=cname, order=order, nf=nf, proc=proc)
                    if "structural" in rec:
                        mm = model_masses(ctx, None, kws)
                        args.update(xB=mm["xB"], Q2=mm["Q2"], masses={k: mm[k] for k in kws}, zs=GRID)
                        chk.obligations += 1
                        chk.report(f"identity:{fam}.{mname}.{cname}:o{order}", f"{label}: {rec['structural']}",
                                   "identity", args)
                        continue
                    assumptions = ctx.facts() + p.pc
                    if mode == "exact":
                        v = chk.prover.prove(rec["resid"].t == 0, assumptions, label + ":exact")
                        chk.evaluations += 1
                        if v.status == "unsat":
                            chk.obligations += 1
                            chk.discharged += 1
                            chk.nontrivial.add(f"{fam}.{mname}.{cname}/o{order}")
                            chk.section("exact_identity", proved=1)
                            if len(chk.samples) < 3:
                                chk.sample({"obligation": label, "claim": "d loc/dz + sing == 0",
                                            "verdict": "unsat (negation)", "secs": round(v.secs, 4)})
                            continue
                        if v.status == "sat":
                            # transcribed fits: tau = 1e-4; analytic families: tau = 1e-10, which only forgives the float noise of
                            # transcendental constants the source mixes (np.pi**2/3 next to 2*zeta2) -- any real edit is larger
                            retry_env = True
                            continue
                        if v.status == "unknown":
                            chk.obligations += 1
                            chk.inconclusive_note(f"{label}: exact identity unknown")
                            continue
                        # sat on an analytic family: candidate
                        chk.obligations += 1
                        mm = model_masses(ctx, v.model, kws)
                        args.update(xB=mm["xB"], Q2=mm["Q2"], masses={k: mm[k] for k in kws},
                                    zs=candidate_zs(ctx, v.model), tau=0.0)
                        chk.report(f"identity:{fam}.{mname}.{cname}:o{order}",
                                   f"{label}: local part is not delta - int_0^x sing (exact family)", "identity", args)
                    else:
                        tau = TAU if rec["param"] else TAU_NOISE
                        claim = z3.And(rec["resid"].t <= (tau * rec["env"]).t, -rec["resid"].t <= (tau * rec["env"]).t)
                        chk.obligations += 1
                        chk.nontrivial.add(f"{fam}.{mname}.{cname}/o{order}")
                        v = chk.prover.prove(claim, assumptions, label + ":tau")
                        chk.evaluations += 1
                        if v.status == "unsat":
                            chk.discharged += 1
                            chk.section("tau_identity", proved=1)
                            chk.section("tau_functions", **{f"{fam}.{mname}.{cname}/o{order}": f"tau={float(tau):g}"})
                            continue
                        if v.status == "unknown":
                            chk.inconclusive_note(f"{label}: tau identity unknown")
                            continue
                        mm = model_masses(ctx, v.model, kws)
                        args.update(xB=mm["xB"], Q2=mm["Q2"], masses={k: mm[k] for k in kws},
                                    zs=candidate_zs(ctx, v.model), tau=float(tau))
                        chk.report(f"identity:{fam}.{mname}.{cname}:o{order}",
                                   f"{label}: local part deviates from delta - int_0^x sing beyond tau={float(tau):g}",
                                   "identity", args)
                if mode == "exact" and not retry_env:
                    break
    return n_rsl


TAU_COEFF = real.Fr(1, 10000)


def coeffwise_polys(cls, cname, proc, order, NF):
    """(sing, loc) of a light class as formal expansions in ln(1-x) with nf = NF (S or number); None if the class has no such pair.
    The x-space fits are sums  sing = sum_k s_k ln^k(1-x)/(1-x),  loc = delta + sum_k c_k ln^k(1-x):  one distribution <=> (k+1) c_{k+1} = s_k."""
    from yv.engine import formal
    from yv.props import c04

    mk = lambda nf_: _float_obj(dict(module=cls.__module__, cls=cname, xB=0.1, Q2=10.0, proc=proc, nf=nf_, masses={}))[order]()
    o4, o5 = mk(4), mk(5)
    if o4 is None or o4.sing is None or o4.loc is None:
        return None
    sp = formal.Poly.lift(o4.sing(formal.Z, c04.sym_args(o4.args["sing"], o5.args["sing"], NF)))
    lp = formal.Poly.lift(o4.loc(formal.Z, c04.sym_args(o4.args["loc"], o5.args["loc"], NF)))
    if any(not (k[0] == 0 and k[1] == 0 and k[3] == 1) for k in sp.t) or any(not (k[0] == 0 and k[1] == 0 and k[3] == 0) for k in lp.t):
        raise formal.NotFormal("not a pure polynomial in ln(1-x)")
    return sp, lp


def replay_coeffwise(args):
    import importlib

    cls = getattr(importlib.import_module(args["module"]), args["cls"])
    nf = int(round(args["nf"]))
    sp, lp = coeffwise_polys(cls, args["cls"], args["proc"], args["order"], float(nf))
    k = args["k"]
    s_ = sp.t.get((0, 0, k, 1))
    c_ = lp.t.get((0, 0, k + 1, 0))
    a = float(s_.const) if s_ is not None else 0.0
    b = (k + 1) * (float(c_.const) if c_ is not None else 0.0)
    if (a - b) ** 2 > float(TAU_COEFF) ** 2 * (a * a + b * b):
        return True, (f"{args['cls']}/o{args['order']} nf={nf}: singular part carries {a!r} ln^{k}(1-x)/(1-x), the local part {b / (k + 1)!r} ln^{k + 1}(1-x), "
                      f"i.e. {b!r} after differentiation")
    return False, "coefficients match"


REPLAYERS["coeffwise"] = replay_coeffwise


def check_coeffwise(chk, item):
    """transcribed fits, coefficient by coefficient: the envelope test above forgives tau = 1e-4 of the SUM of all terms, which hides a slip in a small
    coefficient; here every power of ln(1-x) is compared on its own (relative 1e-4; the pinned tree is consistent to 1.2e-5)"""
    from yv.engine import formal

    key, fam, mname, cname, cls, kws, nf, proc = item
    if fam != "light" or kws:
        return
    for order in (2, 3):
        with Ctx(chk.seed) as ctx:
            NF = ctx.var("nf", 3, 6, lo_open=False, hi_open=False)
            try:
                pr = coeffwise_polys(cls, cname, proc, order, NF)
            except (formal.NotFormal, real.NotEncodable, real.Concretised, TypeError, AttributeError, NotImplementedError, IndexError, KeyError) as e:
                chk.section("coeffwise_skipped", **{f"{fam}.{mname}.{cname}/o{order}": f"{type(e).__name__}: {str(e)[:60]}"})
                continue
            if pr is None:
                continue
            sp, lp = pr
            ints = z3.Or(*[NF.t == n_ for n_ in (3, 4, 5, 6)])
            for k in range(0, 10):
                s_ = sp.t.get((0, 0, k, 1))
                c_ = lp.t.get((0, 0, k + 1, 0))
                if s_ is None and c_ is None:
                    continue
                a = s_ if s_ is not None else S.lift(0)
                b = (k + 1) * (c_ if c_ is not None else S.lift(0))
                d = a - b
                tau2 = TAU_COEFF * TAU_COEFF
                chk.prove(f"{fam}.{mname}.{cname}/o{order}: coefficient of ln^{k}(1-x)/(1-x) == {k + 1} x coefficient of ln^{k + 1}(1-x) in the local part",
                          (d * d).t <= (tau2 * (a * a + b * b)).t, ctx.facts() + [ints], key=f"coeff:{fam}.{mname}.{cname}:o{order}:k{k}",
                          replay=lambda m, ctx=ctx, order=order, k=k: ("coeffwise", dict(module=cls.__module__, cls=cname, proc=proc, order=order, k=k,
                                                                                       nf=float(explore.model_to_assign(ctx, m).get("nf", 4)))),
                          what=f"{fam}.{mname}.{cname}/o{order}: singular and local part disagree in the ln^{k}(1-x) coefficient (not one distribution)")
            chk.section("coeffwise", classes=1)


def check_defined(chk, item, seed, tier):
    """Definedness obligations of every part on every path."""
    key, fam, mname, cname, cls, kws, nf, proc = item
    tmo = 3000 if tier == "quick" else 20000
    for order in range(4):
        with Ctx(seed, track_defined=True) as ctx:

            def body():
                obj = build(ctx, cls, kws, nf, proc)
                rsl = obj[order]()
                if rsl is None:
                    return None
                return eval_defined(ctx, rsl)

            with stubs.cf_stubs():
                ex = explore.Explorer(ctx, max_paths=32 if tier == "quick" else 256, timeout_ms=3000)
                paths = ex.run(body)
            chk.paths += len(paths)
            if not any(p.kind == "ok" and p.value for p in paths):
                continue
            for p in paths:
                if p.kind == "ok" and p.value:
                    for part, st in p.value.items():
                        if part.startswith("impure:"):
                            a_, b_ = st
                            chk.obligations += 1
                            v_ = chk.prover.check(ctx.facts() + p.pc + [a_.t != b_.t], f"{key}/o{order}/{part}")
                            if v_.status == "unsat":
                                chk.discharged += 1
                                continue
                            ctx.assign = dict(p.assign)
                            mm = model_masses(ctx, v_.model, kws)
                            asg = explore.model_to_assign(ctx, v_.model)
                            chk.report(f"pure:{fam}.{mname}.{cname}:o{order}:{part[7:]}", f"{key}/o{order}/{part[7:]}: the same argument gives another value on a later "
                                       f"evaluation (the part is not a function of z)", "pure",
                                       dict(module=cls.__module__, cls=cname, order=order, nf=nf, proc=proc, xB=mm["xB"], Q2=mm["Q2"], masses={k: mm[k] for k in kws},
                                            z=float(asg.get("z", p.assign.get("z", 0.37))), part=part[7:]))
                            continue
                        if st != "ok":
                            chk.section("defined_not_encodable", **{f"{key}/o{order}/{part}": st})
            s = z3.Solver()
            for kind, cond, pc in ctx.obligations:
                lab = f"{key}/o{order}:{kind}"
                s.reset()
                s.set("timeout", tmo)
                s.add(*ctx.domain, *ctx.atom_facts, *pc, z3.Not(cond))
                import time

                t0 = time.time()
                from yv.engine import watchdog

                with watchdog.watch(tmo, lab):
                    r = str(s.check())
                chk.prover.queries += 1
                chk.prover.secs += time.time() - t0
                chk.evaluations += 1
                if r == "unsat":
                    chk.prover.unsat += 1
                    chk.section("definedness", proved=1)
                elif r == "unknown":
                    chk.prover.unknown += 1
                    chk.section("definedness", undecided=1)
                    chk.section("definedness_undecided", **{lab + f"#{cond.get_id()}": str(cond)[:120]})
                else:
                    chk.prover.sat += 1
                    m = s.model()
                    mm = model_masses(ctx, m, kws)
                    asg = explore.model_to_assign(ctx, m)
                    zval = float(asg.get("z", 0.5))
                    hit = False
                    for part in ("reg", "sing", "loc"):
                        args = dict(module=cls.__module__, cls=cname, order=order, nf=nf, proc=proc, xB=mm["xB"],
                                    Q2=mm["Q2"], masses={k: mm[k] for k in kws}, z=zval, part=part)
                        try:
                            ok, _ = replay_defined(args)
                        except Exception:  # noqa
                            ok = False
                        if ok:
                            chk.obligations += 1
                            chk.report(f"defined:{fam}.{mname}.{cname}:o{order}:{part}",
                                       f"{lab}: {part} is not a finite real at an admissible point", "defined", args)
                            hit = True
                            break
                    if not hit:
                        # pole candidate that the float code does not exhibit (atoms are free): undecided
                        chk.section("definedness", candidate_not_reproduced=1)
                        chk.section("definedness_undecided", **{lab + f"#{cond.get_id()}": "sat(not reproduced) " + str(cond)[:100]})


def check_generic(chk, seed):
    """RSL.from_distr_coeffs / from_delta with symbolic coefficients (length <= 6)."""
    from yadism.coefficient_functions import partonic_channel as pcm
    from yv.engine import npshim

    chk.encode(pcm.RSL.from_distr_coeffs, pcm.RSL.from_delta, pcm.sing_from_distr_coeffs,
               pcm.loc_from_distr_coeffs, pcm.loc_from_delta, pcm.RSL.__init__)
    for n in range(1, 7):
        with Ctx(seed) as ctx, npshim.patched((pcm, "np", npshim.NPShim())):
            coeffs = [ctx.var(f"c{i}", None, None, wlo=-5, whi=5) for i in range(n)]
            rsl = pcm.RSL.from_distr_coeffs(None, coeffs)
            z = ctx.var("z", 0, 1)
            loc = rsl.loc(Dual(z, 1), rsl.args["loc"])
            sing = rsl.sing(z, rsl.args["sing"])
            dl = loc.d if isinstance(loc, Dual) else S.lift(0)
            resid = dl + S.lift(sing)
            lab = f"from_distr_coeffs/len{n}"

            def rp(model, ctx=ctx, n=n):
                asg = explore.model_to_assign(ctx, model)
                return "identity", dict(kind="generic", coeffs=[float(asg.get(f"c{i}", 1.0)) for i in range(n)],
                                        zs=candidate_zs(ctx, model), tau=0.0)

            chk.prove(lab + ":identity", resid.t == 0, ctx.facts(), key=f"identity:{lab}", replay=rp,
                      what=f"{lab}: loc' != -sing")
            # delta coefficient: loc(0) == coeffs[0]
            l0 = rsl.loc(S.lift(0), rsl.args["loc"])
            chk.prove(lab + ":delta", S.lift(l0).t == coeffs[0].t, ctx.facts(), key=f"identity:{lab}:delta", replay=rp,
                      what=f"{lab}: loc(0) != delta coefficient")
            # vacuity: perturbed oracle must be refuted (a coefficient k/(k+1) slip)
            if n >= 3:
                chk.expect_sat(lab, ctx.facts() + [(dl + 2 * S.lift(sing)).t != 0], what="perturbation")
    with Ctx(seed) as ctx, npshim.patched((pcm, "np", npshim.NPShim())):
        d = ctx.var("d", None, None, wlo=-5, whi=5)
        rsl = pcm.RSL.from_delta(d)
        z = ctx.var("z", 0, 1)
        loc = rsl.loc(Dual(z, 1), rsl.args["loc"])
        dl = loc.d if isinstance(loc, Dual) else S.lift(0)
        chk.prove("from_delta:identity", z3.And(dl.t == 0, S.lift(rsl.loc(z, rsl.args["loc"])).t == d.t), ctx.facts())


def check_labels(chk, seed, tier):
    """Every splitting / convolved-splitting label used for scale variations."""
    from yadism.coefficient_functions import splitting_functions as split

    nfs = [3, 4, 5, 6] if tier == "thorough" else [3, 6]
    for lvl, labels in enumerate(split.raw_labels):
        for lab, mk in labels.items():
            for nf in nfs:
                for mode in ("exact",):
                    with Ctx(seed) as ctx, stubs.cf_stubs():
                        rsl = mk(nf)
                        for f in (rsl.reg, rsl.sing, rsl.loc):
                            if f is not None:
                                chk.encode(f)
                        ctx.explorer = None
                        rec = eval_rsl(ctx, rsl, "exact")
                        label = f"split.{lab}/nf{nf}"
                        if "structural" in rec:
                            chk.obligations += 1
                            chk.report(f"identity:split.{lab}", f"{label}: {rec['structural']}", "identity",
                                       dict(kind="label", label=lab, nf=nf, zs=GRID))
                            continue
                        if "resid" not in rec:
                            continue

                        def rp(model, ctx=ctx, lab=lab, nf=nf):
                            return "identity", dict(kind="label", label=lab, nf=nf, zs=candidate_zs(ctx, model), tau=0.0)

                        chk.prove(label + ":identity", rec["resid"].t == 0, ctx.facts(), key=f"identity:split.{lab}",
                                  replay=rp, what=f"{label}: local part is not delta - int_0^x sing")


SHARDABLE = True


def run(chk, only=None):
    tier, seed = chk.tier, chk.seed
    # float values of q pi^k (zeta2, np.pi**2/3, ...) are read with ONE rational for pi: constants the source spells in different ways stay
    # consistent, and the analytic families are decided as EXACT identities instead of through the 1e-10 noise tolerance
    real.PI_CONSISTENT[0] = True
    chk.bounds = {
        "z": "(0,1) real, unbounded precision", "nf": "3..6 (quick: {3,5}; labels {3,6})",
        "masses": "Q2, m2hq, m1sq, m2sq > 0 symbolic", "tau": "1e-4 relative to the triangle-inequality envelope, "
        "only for functions defined in light/nnlo, light/n3lo", "paths_per_item": 64 if tier == "quick" else 512,
        "distr_coeffs_length": "<= 6",
    }
    chk.stub("scipy.special.spence / special.li2 -> Li2 atom with exact derivative rule",
             "special.nielsen -> uninterpreted atom (only in regular parts)",
             "LeProHQ.*, adani.* -> uninterpreted functions of their numeric arguments",
             "numpy namespace of coefficient_functions modules -> shim keeping proxies in object arrays")
    chk.assume("floats are read as exact rationals (DESIGN §1); rounding is outside the claim",
               "float values of q pi^k (k <= 4, q rational with denominator <= 2000) are read as q P^k with one rational P = repr(math.pi) (relative change 1e-16)",
               "NUMBA_DISABLE_JIT=1: Python semantics of the kernels",
               "atoms log/sqrt/Li2 are free reals constrained by sound facts; unsat verdicts hold for the true functions")
    if only in (None, "generic") and chk.first:
        check_generic(chk, seed)
    if only in (None, "labels") and chk.first:
        check_labels(chk, seed, tier)
    items, import_failures = class_items(tier)
    for fam, mname, exc in import_failures if chk.first else []:
        key = f"import:{fam}.{mname}:{type(exc).__name__}"
        chk.report(key, f"module {fam}.{mname} cannot be imported: {type(exc).__name__}", "import",
                   dict(module=f"yadism.coefficient_functions.{fam}.{mname}"))
    n = 0
    if only in (None, "classes") or (only and only.startswith("cls:")):
        for it in items:
            if only and only.startswith("cls:") and only[4:] not in it[0]:
                continue
            if not chk.mine(it[0]):
                continue
            try:
                n += check_item(chk, it, seed, tier)
            except Exception as e:  # noqa
                chk.inconclusive_note(f"{it[0]}: harness exception {e!r} {traceback.format_exc()[-300:]}")
    if only in (None, "defined") or (only and only.startswith("def:")):
        ditems = items if tier == "thorough" else [it for it in items if it[6] == 3]
        for it in ditems:
            if only and only.startswith("def:") and only[4:] not in it[0]:
                continue
            if not chk.mine("def" + it[0]):
                continue
            try:
                check_defined(chk, it, seed, tier)
            except Exception as e:  # noqa
                chk.inconclusive_note(f"{it[0]}: harness exception in definedness {e!r} {traceback.format_exc()[-300:]}")
    if only in (None, "coeffwise"):
        done = set()
        for it in items:
            ck = (it[1], it[2], it[3])
            if ck in done or not chk.mine("cw" + it[0].split("/")[0]):
                continue
            done.add(ck)
            try:
                check_coeffwise(chk, it)
            except Exception as e:  # noqa
                chk.inconclusive_note(f"{it[0]}: harness exception in coefficient-wise comparison {e!r}")
    chk.section("inventory", rsl_with_parts=n, classes=len(items))
    chk.exhaustive = False
    return chk.finish(
        level="other",
        explanation="Symbolic execution of every RSL producer of /repo (real constructors and kernels, JIT off) on z3-backed "
        "proxies with forward-mode derivatives; the solver decides d loc/dz + sing == 0 for all z in (0,1) and all "
        "positive masses (exactly for analytic families, within tau=1e-4 of the envelope for transcribed fits), the "
        "structural clauses, and the definedness obligations of every part on every path. Counterexamples are replayed "
        "on floats against the real functions before being reported.",
        rule="one obligation per (class, order, nf, path) and per (label, nf); non-trivial = the RSL has a sing or loc part; "
        "distinct = distinct (family.module.class/order)",
    )


def replay_import(args):
    try:
        importlib.import_module(args["module"])
    except Exception as e:  # noqa
        return True, f"import raises {type(e).__name__}: {str(e)[:200]}"
    return False, "imports fine"


REPLAYERS["import"] = replay_import
