"""C10 -- target-mass-corrected results equal the published formulas.

The real ESFTMC_{F2,FL,F3,g1} classes (constructors, get_result, _convolve_FX, the njit kernels) run on
symbolic x, Q2, M^2 and grid nodes; the uncorrected structure functions are uninterpreted functions
F_kind(x), the basis convolutions formal numbers H(kernel, j) (and the real kernel is executed at a
symbolic z to identify WHICH integral is being taken).  z3 proves the result equal to the published
combination (Schienbein et al. 0709.1775 / Kretzer-Reno; Bluemlein-Tkabladze, Accardi-Melnitchouk for g1).
"""

import itertools
import math
import random

import numpy as np
import z3

from yv.engine import explore, harness, npshim, real
from yv.engine.real import S, Ctx
from yv.props import common as cm

ORDERS = [(0, 0, 0, 0), (1, 0, 0, 0)]
KINDS = ["F2", "FL", "F3", "g1"]
MODES = {1: "APFEL", 2: "approx", 3: "exact"}

# published kernels: (k (x) G)(xi) = int_xi^1 du w(u) G(u)  <=>  k(z) = (xi/z) w(xi/z)
KERNELS = {
    "int G/u^2": lambda z, xi: z / xi,  # w = 1/u^2
    "int (u-xi) G/u^2": lambda z, xi: 1 - z,  # w = (u - xi)/u^2
    "int ln(u/xi) G/u^2": lambda z, xi, log: z * log(1 / z) / xi,  # w = ln(u/xi)/u^2
    "int G/u": lambda z, xi: 1,  # w = 1/u
}


class Env:
    """Number factory shared by the symbolic run and the float replay."""

    def __init__(self, ctx=None, seed=0):
        self.ctx = ctx
        self.rnd = random.Random(seed)
        self._h = {}

    def F(self, name, o, which, x):
        if self.ctx is not None:
            return self.ctx.ufun(f"SF|{name}|{o}|{which}", [x])
        # an arbitrary smooth test function per (name, order, which)
        r = random.Random(hash((name, o, which)))
        a, b, c = r.uniform(0.5, 2), r.uniform(0.1, 1.5), r.uniform(1, 4)
        return a * float(x) ** b * (1 - float(x)) ** c + r.uniform(-0.2, 0.2)

    def H(self, label, j, which):
        key = (label, j, which)
        if key not in self._h:
            if self.ctx is not None:
                self._h[key] = self.ctx.var(f"H|{label}|{j}|{which}", None, None, wlo=-2, whi=2)
            else:
                self._h[key] = random.Random(hash(key)).uniform(-2, 2)
        return self._h[key]

    def log(self, v):
        return np.log(v)


class Basis:
    """Stands for eko's BasisFunction: only the support's upper end matters to the TMC code."""

    def __init__(self, j, xmax):
        self.j, self.xmax = j, xmax

    def is_below_x(self, x):
        return self.xmax <= x


def make_sf(kind, flav, V, mode, env, log):
    """A StructureFunction look-alike whose get_esf builds the REAL ESF (kinematic validation) but
    answers get_result with the formal tensor of its (name, x)."""
    from yadism import observable_name as on
    from yadism.esf.esf import EvaluatedStructureFunction
    from yadism.esf.result import ESFResult

    nodes = V["grid"]
    basis = [Basis(j, nodes[min(j + 1, len(nodes) - 1)]) for j in range(len(nodes))]
    interp = cm.StubInterpolator(nodes, basis)
    cc = cm.make_coupling(cm.ew_params(values={}), "NC", 11)
    cfg = cm.make_configs(cc, M2target=V["M2"], TMC=mode, interpolator=interp)

    class FormalESF(EvaluatedStructureFunction):
        def get_result(self_):
            r = ESFResult(self_.x, self_.Q2, 4)
            for o in ORDERS:
                v = np.empty((1, 1), dtype=object)
                e = np.empty((1, 1), dtype=object)
                v[0, 0] = env.F(self_.info.obs_name.name, o, "v", self_.x)
                e[0, 0] = env.F(self_.info.obs_name.name, o, "e", self_.x)
                r.orders[o] = (v, e)
            return r

    class SF:
        def __init__(self):
            self.obs_name = on.ObservableName(f"{kind}_{flav}")
            self.runner = cm.Info(configs=cfg)
            self.requests = []

        def get_esf(self, obs_name, kinematics, *a, **k):
            self.requests.append((obs_name.name, kinematics["x"], kinematics["Q2"]))
            log.append(("get_esf", obs_name.name))
            return FormalESF(kinematics, obs_name, cfg)

    return SF()


def classify_kernel(ker, xi, zsym, env):
    """Run the real kernel at symbolic (z, xi') and name the published integral it produces
    (solver-proved equality; xi' is a fresh variable, the actual argument is compared with xi separately)."""
    if env.ctx is not None:
        xik = env.ctx.var("xi_k", 0, 1, hi_open=False)
        arr = np.array([xik], dtype=object)
    else:
        xik = float(xi)
        arr = np.array([xik])
    kz = ker(zsym, arr)
    for label, ref in KERNELS.items():
        r = ref(zsym, xik, np.log) if "ln" in label else ref(zsym, xik)
        if env.ctx is not None:
            if env.ctx.proves_equal(S.lift(kz).t, S.lift(r).t):
                return label
        elif abs(float(kz) - float(r)) < 1e-12:
            return label
    return f"unpublished kernel {getattr(ker, '__name__', ker)}"


def oracle(kind, mode, V, env, flav):
    """Published TMC formula as a list of terms on the observables G = F2, FL, xF3, 2x g1:
    [('point', coefficient, kind)] evaluated at xi, [('int', coefficient, kind, integral label)]."""
    x, Q2, M2 = V["x"], V["Q2"], V["M2"]
    mu = M2 / Q2
    rho = np.sqrt(1 + 4 * x * x * mu)
    xi = 2 * x / (1 + rho)
    lnxi = env.log(xi) if mode == 2 and kind in ("FL", "F3", "g1") else None
    I2, G2, K2 = "int G/u^2", "int (u-xi) G/u^2", "int ln(u/xi) G/u^2"
    if kind == "F2":
        A = x**2 / (xi**2 * rho**3)
        if mode == 2:  # Schienbein et al. closed approximation
            return xi, [("point", A * (1 + 6 * mu * x * xi / rho * (1 - xi) ** 2), "F2")]
        t = [("point", A, "F2"), ("int", 6 * mu * x**3 / rho**4, "F2", I2)]
        if mode == 3:
            t.append(("int", 12 * mu**2 * x**4 / rho**5, "F2", G2))
        return xi, t
    if kind == "FL":  # F_L^TMC = r^2 F2^TMC - 2x F1^TMC (docs/theory/misc.rst), term by term
        A = x**2 / (xi**2 * rho)
        B, C = 4 * mu * x**3 / rho**2, 8 * mu**2 * x**4 / rho**3
        if mode == 2:  # integrand's structure function frozen at the bottom end
            return xi, [("point", A, "FL"), ("point", B * (1 - xi) / xi + C * (-lnxi - 1 + xi), "F2")]
        t = [("point", A, "FL"), ("int", B, "F2", I2)]
        if mode == 3:
            t.append(("int", C, "F2", G2))
        return xi, t
    if kind == "F3":
        # F3^TMC = x/(xi r^2) F3(xi) + 2 mu x^2/r^3 int du F3(u)/u ; observable G = x F3:
        # x F3^TMC = x^2/(xi^2 r^2) G(xi) + 2 mu x^3/r^3 int du G(u)/u^2
        A = x**2 / (xi**2 * rho**2)
        if mode == 2:
            return xi, [("point", A * (1 - mu * x * xi / rho * (1 - xi) * lnxi), "F3")]
        return xi, [("point", A, "F3"), ("int", 2 * mu * x**3 / rho**3, "F3", I2)]
    if kind == "g1":
        # g1^TMC = x/(xi r^3) g1(xi) + 4 mu x^2/r^4 [ (x+xi)/xi int du g1/u + (r^2-3)/(2r) int du ln(u/xi) g1/u ]
        # observable G = 2 x g1:  g1(u)/u = G(u)/(2u^2);  result = 2x g1^TMC(x)
        A = 2 * x * x / (xi * rho**3) / (2 * xi)
        c = 2 * x * 4 * mu * x**2 / rho**4
        c1, c2 = c * (x + xi) / xi / 2, c * (rho**2 - 3) / (2 * rho) / 2
        if mode == 2:
            return xi, [("point", A + c1 * (1 - xi) / xi + c2 * (1 / xi - 1 + lnxi), "g1")]
        t = [("point", A, "g1"), ("int", c1, "g1", I2)]
        if mode == 3:
            t.append(("int", c2, "g1", K2))
        return xi, t
    raise ValueError(kind)


def run_case(case, V, env):
    """Execute the real TMC object; returns (outcome, pairs, info)."""
    from yadism.coefficient_functions import partonic_channel as pcm
    from yadism.esf import conv, tmc

    kind, mode, flav = case["kind"], case["mode"], case.get("flavor", "total")
    log = []
    sf = make_sf(kind, flav, V, mode, env, log)
    zsym = V["z"]
    seen = []

    def fake_convolution(rsl, x, pdf_func):
        # contract of conv.convolution for a regular-only RSL: (int_x^1 dz/z reg(z) p_j(x/z), error)
        if rsl.sing is not None or rsl.loc is not None:
            raise AssertionError("TMC kernel with singular/local part")
        label = classify_kernel(rsl.reg, rsl.args["reg"][0], zsym, env)
        seen.append((label, pdf_func.j, x, rsl.args["reg"][0]))
        return env.H(label, pdf_func.j, "v"), env.H(label, pdf_func.j, "e")

    with npshim.patched((pcm, "np", npshim.NPShim()), (conv, "convolution", fake_convolution)):
        # history: the probed point is not the first TMC point of its Q2 -- a point at larger x (same Q2, same parent, whose cache dict is live as
        # in StructureFunction) has been evaluated before it; on code without hidden state that changes nothing
        sf.cache = {}
        try:
            tmc.ESFTMCmap[kind](sf, {"x": (1 + V["x"]) / 2, "Q2": V["Q2"]}).get_result()
        except ValueError:
            pass
        del seen[:]
        del log[:]
        del sf.requests[:]
        obj = tmc.ESFTMCmap[kind](sf, {"x": V["x"], "Q2": V["Q2"]})
        try:
            res = obj.get_result()
        except ValueError as e:
            return "ValueError", [], dict(seen=seen, xi=obj.xi, msg=str(e))
        # the cached object answers every further request for this point (listed twice, shared by cross sections, a second
        # Runner.get_result): the formula must hold on every evaluation, so a second one has to return the same tensors
        n_first = len(seen)
        res2 = obj.get_result()
        del seen[n_first:]
    xi_ref, terms = oracle(kind, mode, V, env, flav)
    pairs = [("xi", obj.xi, xi_ref), ("result.x", res.x, V["x"]), ("result.Q2", res.Q2, V["Q2"])]
    for o in ORDERS:
        a, b = res.orders.get(o), res2.orders.get(o)
        if a is None or b is None:
            pairs.append((f"second evaluation has order {o}", (a is None) == (b is None), True))
            continue
        pairs.append((f"second evaluation value{o}", b[0][0, 0], a[0][0, 0]))
        pairs.append((f"second evaluation error{o}", b[1][0, 0], a[1][0, 0]))
    for lab, jj, xarg, a0 in seen:
        pairs.append((f"convolution point of {lab}[{jj}] is xi", xarg, xi_ref))
        pairs.append((f"kernel argument of {lab}[{jj}] is xi", a0, xi_ref))
    nodes = V["grid"]
    used = {}
    for lab, jj, _, _ in seen:
        used.setdefault(lab, set()).add(jj)
    # basis functions that contribute: support not entirely below xi (same comparisons as the path took)
    expected_js = [j for j, b in enumerate(sf.runner.configs.interpolator) if not bool(b.xmax <= xi_ref)]
    for o in ORDERS:
        val = 0
        err = 0
        for t in terms:
            name = f"{t[2]}_{flav}"
            if t[0] == "point":
                val = val + t[1] * env.F(name, o, "v", xi_ref)
                err = err + t[1] * env.F(name, o, "e", xi_ref)
            else:
                for jj in expected_js:
                    fv, fe = env.F(name, o, "v", nodes[jj]), env.F(name, o, "e", nodes[jj])
                    hv, he = env.H(t[3], jj, "v"), env.H(t[3], jj, "e")
                    val = val + t[1] * (hv * fv)
                    err = err + t[1] * (hv * fe + he * fv)
        got = res.orders.get(o)
        if got is None:
            pairs.append((f"order {o} present", False, True))
            continue
        pairs.append((f"value{o}", got[0][0, 0], val))
        pairs.append((f"error{o}", got[1][0, 0], err))
    # which integrals were taken, and over which basis functions (those not below xi)
    want = sorted({t[3] for t in terms if t[0] == "int"}) if expected_js else []
    pairs.append((f"integrals taken {sorted(used)} == published {want}", sorted(used) == want, True))
    return "ok", pairs, dict(seen=seen, xi=obj.xi, used=used)


def grid_and_params(ctx=None, values=None, n=3):
    if ctx is not None:
        x0 = ctx.var("g0", 0, 1, wlo=0.001, whi=0.2)
        x1 = ctx.var("g1", 0, 1, wlo=0.3, whi=0.9)
        ctx.domain.append(x0.t < x1.t)
        # parametrise the target mass by rho = sqrt(1 + 4 x^2 M^2/Q^2) >= 1 (a bijection onto M^2 >= 0):
        # everything becomes a rational function of (x, Q2, rho) and the solver needs no sqrt atom
        x = ctx.var("x", 0, 1, hi_open=False, wlo=0.25, whi=0.8)
        Q2 = ctx.var("Q2", 0, None, wlo=2, whi=50)
        rho = ctx.var("rho", 1, None, lo_open=False, wlo=1, whi=1.6)
        V = dict(x=x, Q2=Q2, M2=Q2 * (rho * rho - 1) / (4 * x * x), grid=[x0, x1, 1.0], z=ctx.var("z", 0, 1), rho=rho)
        return V
    V = dict(values)
    if "rho" in V and "M2" not in V:
        V["M2"] = V["Q2"] * (V["rho"] ** 2 - 1) / (4 * V["x"] ** 2)
    V["grid"] = [V.pop("g0"), V.pop("g1"), 1.0]
    V.setdefault("z", 0.37)
    return V


def replay_case(args):
    env = Env(None, seed=3)
    V = grid_and_params(values=dict(args["values"]))
    try:
        outcome, pairs, info = run_case(args["case"], V, env)
    except Exception as e:  # noqa
        return True, f"{args['case']}: raises {type(e).__name__}: {e}"
    if args.get("expect") == "ValueError":
        return (outcome != "ValueError"), f"outcome {outcome} with xi={info.get('xi')} grid={V['grid']}"
    if outcome != "ok":
        return False, f"rejected: {info.get('msg')}"
    bad = harness.float_pairs_differ(pairs, args.get("label"), rtol=1e-9)
    return (True, f"{args['case']} at {args['values']}: {bad[:3]}") if bad else (False, "equal to the published formula here")


REPLAYERS = {"case": replay_case}


SHARDABLE = True


def replay_wiring(args):
    """real Runner on float cards: the TMC mode and the squared target mass reach the configuration unchanged, and a request is
    answered by the TMC class exactly when the mode is not 0"""
    import yadism.log
    from yadism.esf import tmc
    from yadism.runner import Runner
    from yv.props import c06

    yadism.log.silent_mode = True
    mode = args["mode"]
    t, o = c06.cards(dict(mc=1.51, mb=4.92, mt=172.5, kc=1.0, kb=1.0, kt=1.0, Q2=10.0), "ZM-VFNS", 4, pto=0)
    mp = float(args.get("MP", 0.9383))
    t.update(TMC=mode, MP=mp)
    try:
        r = Runner(t, o)
    except Exception as e:  # noqa
        return True, f"Runner raises {type(e).__name__}: {e}"
    got = r.configs.TMC
    if got != mode:
        return True, f"the run is configured with TMC={got!r}, the card says {mode}"
    if abs(float(r.configs.M2target) - mp**2) > 1e-12:
        return True, f"the run is configured with M2target={r.configs.M2target!r}, the card says MP={mp} (M = 0 is an admissible target mass: no correction)"
    obj = r.observables["F2_total"].elements[0]
    if isinstance(obj, tmc.EvaluatedStructureFunctionTMC) != (mode != 0):
        return True, f"the requested point is served by {type(obj).__name__}"
    return False, "mode and target mass as on the card"


REPLAYERS["wiring"] = replay_wiring


def run(chk, only=None):
    from yadism.esf import tmc

    chk.encode(tmc.EvaluatedStructureFunctionTMC.__init__, tmc.EvaluatedStructureFunctionTMC.get_result,
               tmc.EvaluatedStructureFunctionTMC._convolve_FX, tmc.EvaluatedStructureFunctionTMC._h2,
               tmc.EvaluatedStructureFunctionTMC._g2, tmc.EvaluatedStructureFunctionTMC._k1,
               tmc.EvaluatedStructureFunctionTMC._k2, tmc.h2_ker, tmc.g2_ker, tmc.h3_ker, tmc.k2_ker)
    for c in (tmc.ESFTMC_F2, tmc.ESFTMC_FL, tmc.ESFTMC_F3, tmc.ESFTMC_g1):
        chk.encode(c.__init__, c._get_result_exact, c._get_result_APFEL, c._get_result_approx)
    chk.bounds = {"x": "(0,1]", "Q2": ">0", "M^2": ">=0", "grid": "3 nodes g0<g1<1 with symbolic g0,g1 (supports [g0,g1],[g0,1],[g1,1])",
                  "tensors": "1x1, two order keys", "modes": "1,2,3", "kinds": KINDS, "paths": "<= 64 per case"}
    chk.stub("structure functions F_kind(x) -> uninterpreted functions (values and errors per order key)",
             "conv.convolution(RSL(ker,[xi]), xi, p_j) -> formal H(ker-class, j) (+ the real ker(z,[xi]) executed at symbolic z and "
             "classified by solver-proved equality with the published kernels)",
             "basis function -> is_below_x from its support's upper end", "sqrt -> atom rho with rho>=0, rho^2 = 1+4x^2 M^2/Q^2")
    chk.assume("approximate mode oracle: F2, F3 Schienbein et al. closed approximations; FL, g1 'integrand frozen at the bottom end' "
               "(docs/theory/misc.rst)", "accuracy of the j-sum as an interpolation of the integral is outside (C01/C19)")
    for kind, mode, flav in itertools.product(KINDS, (1, 2, 3), ("total", "charm")):
        if chk.tier == "quick" and flav == "charm" and mode == 1:
            continue
        if only and only != kind:
            continue
        case = dict(kind=kind, mode=mode, flavor=flav)
        cname = f"{kind}_{flav}/TMC={mode}({MODES[mode]})"
        if not chk.mine(cname):
            continue
        with Ctx(chk.seed) as ctx:
            env = Env(ctx)

            def body():
                V = grid_and_params(ctx)
                return run_case(case, V, env), V

            ex = explore.Explorer(ctx, max_paths=64, timeout_ms=5000)
            paths = ex.run(body)
            chk.paths += len(paths)
            if ex.bound_hit:
                chk.inconclusive_note(f"{cname}: path bound hit")
            xiv = None
            for p in paths:
                ctx.assign = dict(p.assign)  # replays fall back to this path's witness point
                def vals(model, ctx=ctx):
                    asg = explore.model_to_assign(ctx, model) if model is not None else {}
                    return {k: float(asg.get(k, ctx.assign.get(k, 0.5))) for k in ("x", "Q2", "rho", "g0", "g1")}

                if p.kind == "exc":
                    chk.obligations += 1
                    chk.report(f"raise:{kind}:{mode}", f"{cname}: raises {type(p.value).__name__}: {str(p.value)[:100]}", "case",
                               dict(case=case, values={k: float(p.assign.get(k, 0.5)) for k in ("x", "Q2", "rho", "g0", "g1")}))
                    continue
                (outcome, pairs, info), V = p.value
                facts = ctx.facts() + p.pc
                xi = S.lift(info["xi"])
                g0 = V["grid"][0]
                if outcome == "ValueError":
                    # rejection must be justified: xi below the grid
                    chk.prove(f"{cname}:rejection only below the grid", xi.t < g0.t, facts, key=f"reject:{kind}:{mode}",
                              replay=lambda m, case=case, vals=vals: ("case", dict(case=case, values=vals(m), expect="ok")),
                              what=f"{cname}: ValueError although xi is inside the grid")
                    chk.section("paths", rejected=1)
                    continue
                chk.section("paths", computed=1)
                # a computed result means xi is inside the grid (requests with shifted x outside are rejected)
                chk.prove(f"{cname}:computed only inside the grid", xi.t >= g0.t, facts, key=f"noreject:{kind}:{mode}",
                          replay=lambda m, case=case, vals=vals: ("case", dict(case=case, values=vals(m), expect="ValueError")),
                          what=f"{cname}: result returned although xi(x) is below the grid")

                def rp_for(lab, case=case, vals=vals):
                    return lambda m: ("case", dict(case=case, values=vals(m), label=lab))

                harness.prove_pairs(chk, cname + f"/path{paths.index(p)}", pairs, facts, rp_for,
                                    lambda lab, kind=kind, mode=mode: f"tmc:{kind}:{mode}:{lab.split('[')[0].split('(')[0]}",
                                    sample={"case": case, "pairs": [l for l, _, _ in pairs][:6], "pc": [str(c)[:60] for c in p.pc[:3]]})
                # M -> 0: the correction vanishes exactly
                m0 = facts + [ctx.vars["rho"][0] == 1]
                for o in ORDERS:
                    got = S.lift(p.value[0][1][[l for l, _, _ in pairs].index(f"value{o}")][1]) if f"value{o}" in [l for l, _, _ in pairs] else None
                    if got is None:
                        continue
                    ref = env.F(f"{kind}_{flav}", o, "v", V["x"])
                    chk.prove(f"{cname}/path{paths.index(p)}:M=0:{o}", got.t == ref.t, m0, key=f"tmc:{kind}:{mode}:M0",
                              replay=lambda m, case=case, vals=vals: ("case", dict(case=case, values=dict(vals(m), rho=1.0))),
                              what=f"{cname}: result at M=0 is not the uncorrected structure function")
    if not chk.first:
        return chk.finish(explanation="shard of C10 (see the merged evidence)", rule="")
    # wiring: the mode and the target mass the formulas are evaluated with are the ones of the cards (through the real Runner)
    for mode, mp in itertools.product((0, 1, 2, 3), (0.9383, 0.0, 2.5)):
        chk.obligations += 1
        chk.evaluations += 1
        bad, detail = replay_wiring(dict(mode=mode, MP=mp))
        if bad:
            chk.report("tmc:wiring", f"TMC={mode}, MP={mp}: {detail}", "wiring", dict(mode=mode, MP=mp))
        else:
            chk.discharged += 1
    with Ctx(chk.seed) as ctx:
        V = grid_and_params(ctx)
        chk.expect_sat("domain", ctx.facts())
        rho = V["rho"]
        chk.expect_sat("perturbed prefactor (rho^3 vs rho^2)", ctx.facts() + [(1 / rho**3).t != (1 / rho**2).t], what="perturbation")
    return chk.finish(
        explanation="The real TMC classes run on symbolic x, Q2, M^2 and grid nodes with uninterpreted structure functions and "
        "formal basis convolutions; all feasible paths (which basis functions lie below xi, xi below the grid) are explored. On "
        "each path z3 proves the result (values and propagated errors, per order key) equal to the published combination: "
        "prefactors, WHICH observable is integrated, WHICH integral (the real kernel run at symbolic z and matched by solver-"
        "proved equality), the Nachtmann point; that M=0 returns the uncorrected function exactly; and that a ValueError is "
        "raised exactly when xi(x) is below the grid.",
        rule="one obligation per (kind, mode, flavour, path, pair); distinct = (kind, mode, flavour, path); non-trivial = symbolic",
    )
