"""Shared scaffolding: stub ESF/configs that the real yadism classes accept, class inventories."""

import importlib
import inspect
import os
import pkgutil

os.environ.setdefault("NUMBA_DISABLE_JIT", "1")

import numpy as np  # noqa: E402

from yadism import observable_name as on  # noqa: E402
from yadism.coefficient_functions import partonic_channel as pcmod  # noqa: E402

FAMILIES = ["light", "heavy", "asy", "intrinsic"]
KINDS = ["F2", "FL", "F3", "g1", "gL", "g4"]

# adani 1.1.0 (installed) no longer accepts the call made at import time of these two modules
# (environmental, DESIGN §6): exactly this signature is tolerated, anything else is reported.
ADANI_IMPORT_SIGNATURE = ("TypeError", "HighScaleSplitLogs")


class Info:
    """Stands for ESFInfo: attribute bag forwarding to a dict."""

    def __init__(self, **kw):
        self.__dict__.update(kw)


class StubESF:
    """What PartonicChannel classes read from an ESF: x, Q2, process, info."""

    def __init__(self, x, Q2, process="NC", info=None):
        self.x, self.Q2, self.process, self.info = x, Q2, process, info

    def __repr__(self):
        return f"StubESF({self.process})"


def family_modules(family):
    """All (name, module | exception) of yadism.coefficient_functions.<family>.<kind>_<proc>."""
    pkg = importlib.import_module(f"yadism.coefficient_functions.{family}")
    out = []
    for mi in pkgutil.iter_modules(pkg.__path__):
        n = mi.name
        if mi.ispkg or "_" not in n or n.split("_")[0].upper() not in [k.upper() for k in KINDS]:
            continue
        if n.endswith("_raw"):
            continue
        try:
            out.append((n, importlib.import_module(f"{pkg.__name__}.{n}")))
        except Exception as e:  # noqa
            out.append((n, e))
    return out


def channel_classes(mod):
    out = []
    for name, cls in sorted(vars(mod).items()):
        if inspect.isclass(cls) and issubclass(cls, pcmod.PartonicChannel) and not name.startswith("_"):
            if cls.__module__ == mod.__name__:
                out.append((name, cls))
    return out


def ctor_kwargs(cls):
    """Names of keyword-only mass arguments the class (or a base) requires."""
    need = []
    for k in inspect.signature(cls.__init__).parameters.values():
        if k.kind == k.KEYWORD_ONLY and k.default is k.empty:
            need.append(k.name)
    # subclasses with (*args, **kwargs) forward to a base: walk the MRO
    if not need:
        for b in cls.__mro__[1:]:
            if b is object or "__init__" not in vars(b):
                continue
            for k in inspect.signature(b.__init__).parameters.values():
                if k.kind == k.KEYWORD_ONLY and k.default is k.empty and k.name not in need:
                    need.append(k.name)
            if need:
                break
    return need


def is_adani_import_failure(exc):
    return type(exc).__name__ == ADANI_IMPORT_SIGNATURE[0] and ADANI_IMPORT_SIGNATURE[1] in repr(exc) + str(
        getattr(exc, "__traceback__", "")
    ) or _tb_mentions(exc, "adani") or _tb_mentions(exc, "HighScaleSplitLogs")


def _tb_mentions(exc, word):
    import traceback

    return word in "".join(traceback.format_exception(type(exc), exc, exc.__traceback__))


# ---------------------------------------------------------------------------------------------
# real RunnerConfigs / ESF built directly (state construction, DESIGN 'drive the unit')
# ---------------------------------------------------------------------------------------------

PROJECTILES = {"electron": 11, "positron": -11, "neutrino": 12, "antineutrino": -12}
SCHEMES = ["ZM-VFNS", "FFNS", "FFN0", "FONLL-FFNS", "FONLL-FFN0"]


class StubXGrid:
    def __init__(self, raw):
        self.raw = list(raw)

    def __len__(self):
        return len(self.raw)


class StubInterpolator:
    """Stands for eko's InterpolatorDispatcher: an xgrid and an iterable of basis functions."""

    def __init__(self, xgrid, basis=()):
        self.xgrid = StubXGrid(xgrid)
        self.basis = list(basis)

    def __iter__(self):
        return iter(self.basis)

    def __len__(self):
        return len(self.basis)


EW_PARAMS = ["sin2tw", "MZ2", "MW2", "pol", "propcorr"] + [f"V2_{n}" for n in
                                                         ["ud", "us", "ub", "cd", "cs", "cb", "td", "ts", "tb"]]
EW_DEFAULTS = dict(sin2tw=0.23121, MZ2=91.1876**2, MW2=80.398**2, pol=0.0, propcorr=0.0, V2_ud=0.97428**2,
                   V2_us=0.2253**2, V2_ub=0.00347**2, V2_cd=0.2252**2, V2_cs=0.97345**2, V2_cb=0.041**2,
                   V2_td=0.00862**2, V2_ts=0.0403**2, V2_tb=0.999152**2)


def ew_params(ctx=None, values=None):
    """Electroweak parameters: symbolic (ctx given) or concrete floats (values: dict, for replays)."""
    if ctx is not None:
        P = dict(
            sin2tw=ctx.var("sin2tw", 0, 1),
            MZ2=ctx.var("MZ2", 0, None, wlo=100, whi=9000),
            MW2=ctx.var("MW2", 0, None, wlo=100, whi=7000),
            pol=ctx.var("pol", -1, 1, lo_open=False, hi_open=False),
            propcorr=ctx.var("propcorr", None, 1, wlo=-0.2, whi=0.2),
        )
        for n in EW_PARAMS[5:]:
            P[n] = ctx.var(n, 0, None, lo_open=False, wlo=0.01, whi=1)
        return P
    P = dict(EW_DEFAULTS)
    P.update({k: float(v) for k, v in (values or {}).items() if k in EW_DEFAULTS})
    return P


def ckm_nested(P):
    names = ["ud", "us", "ub", "cd", "cs", "cb", "td", "ts", "tb"]
    return [[P[f"V2_{names[3 * r + c]}"] for c in range(3)] for r in range(3)]


def make_coupling(P, process, projectile_pid, nc_pos_charge=None):
    """The real CouplingConstants (+ real CKM2Matrix) on the parameters P (see ew_params)."""
    from yadism.coefficient_functions.coupling_constants import CKM2Matrix, CouplingConstants

    ckm = np.empty(9, dtype=object)
    for i, n in enumerate(EW_PARAMS[5:]):
        ckm[i] = P[n]
    if not any(hasattr(v, "t") for v in ckm):
        ckm = np.array([float(v) for v in ckm])
    theory_config = {"MZ2": P["MZ2"], "CKM": CKM2Matrix(ckm), "sin2theta_weak": P["sin2tw"], "MW2": P["MW2"]}
    obs_config = {
        "process": process,
        "projectilePID": projectile_pid,
        "polarization": P["pol"],
        "propagatorCorrection": P["propcorr"],
        "nc_pos_charge": nc_pos_charge,
    }
    return CouplingConstants(theory_config, obs_config)


def make_configs(coupling, *, pto=0, pto_evol=0, scheme="ZM-VFNS", nf_ff=4, ZMq=(True, True, True),
                 m2hq=(2.0, 20.0, 30000.0), TMC=0, target=None, fonllparts="full", n3lo_cf_variation=0,
                 threshold=None, interpolator=None, sv_manager=None, M2target=0.88, GF=1.1663787e-05, M2W=6463.8):
    """The real RunnerConfigs, filled the way Runner.__init__ fills it."""
    from yadism.runner import RunnerConfigs

    managers = dict(
        interpolator=interpolator if interpolator is not None else StubInterpolator([1e-4, 1e-2, 0.1, 0.5, 1.0]),
        threshold=threshold,
        coupling_constants=coupling,
        sv_manager=sv_manager,
    )
    theory = dict(
        pto=pto, pto_evol=pto_evol, scheme=scheme, nf_ff=nf_ff, ZMq=tuple(ZMq), m2hq=list(m2hq), TMC=TMC,
        target=target if target is not None else {"Z": 1.0, "A": 1.0}, GF=GF, M2W=M2W, M2target=M2target,
        fonllparts=fonllparts, n3lo_cf_variation=n3lo_cf_variation,
    )
    return RunnerConfigs(theory=theory, managers=managers)


def make_esf(configs, obs_name, x, Q2):
    """The real EvaluatedStructureFunction on (possibly symbolic) kinematics."""
    from yadism.esf.esf import EvaluatedStructureFunction

    name = obs_name if not isinstance(obs_name, str) else on.ObservableName(obs_name)
    return EvaluatedStructureFunction({"x": x, "Q2": Q2}, name, configs)


class fixed_nf:
    """Context manager: Combiner's nf_default(Q2, threshold) returns `threshold` itself (an int)."""

    def __enter__(self):
        import yadism.coefficient_functions as cf

        self._cf = cf
        self._old = cf.nf_default
        cf.nf_default = lambda q2, thr: thr
        return self

    def __exit__(self, *a):
        self._cf.nf_default = self._old


def zm_setup(scheme, nf_ff):
    """(ZMq flags, fixed nf or None) exactly as compatibility.update_fns + Atlas produce them
    (re-derived here from the documented meaning; C06 checks update_fns itself)."""
    if scheme == "ZM-VFNS":
        return (True, True, True), None
    if scheme in ("FFNS", "FFN0"):
        return tuple(k + 4 <= nf_ff for k in range(3)), nf_ff
    # FONLL: exactly one massive flavour nf_ff+1
    return tuple(not (k + 4 == nf_ff + 1) for k in range(3)), nf_ff


# ---------------------------------------------------------------------------------------------
# running the real Combiner
# ---------------------------------------------------------------------------------------------

M2HQ = (2.0, 20.0, 30000.0)


def kernel_sig(k):
    """Identity of the mathematical object a Kernel multiplies: class, nf, masses, order window."""
    c = k.coeff
    masses = []
    for a in ("m2hq", "m1sq", "m2sq"):
        if hasattr(c, a):
            v = getattr(c, a)
            masses.append((a, str(getattr(v, "const", v)) if hasattr(v, "const") else float(v)))
    extra = getattr(c, "n3lo_cf_variation", None)
    return (f"{type(c).__module__.split('coefficient_functions.')[-1]}.{type(c).__qualname__}", c.nf, tuple(masses),
            k.min_order, k.max_order, extra)


def linear_form(kernels_list):
    """Formal linear form sum_k sum_p w_p e_p (x) K_sig as a dict (sig, parton) -> weight."""
    form = {}
    for k in kernels_list:
        sig = kernel_sig(k)
        for p, w in k.partons.items():
            form[(sig, p)] = form.get((sig, p), 0) + w
    return form


class generic_drop_empty:
    """Combiner.drop_empty (weight != 0) runs under the 'generic point' decision policy."""

    def __enter__(self):
        import yadism.coefficient_functions as cf
        from yv.engine import real

        self._cf = cf
        self._old = cf.Combiner.__dict__["drop_empty"]
        orig = cf.Combiner.drop_empty

        def drop_empty(full):
            ctx = real._CUR[0]
            ex = ctx.explorer if ctx is not None else None
            if ex is None:
                return orig(full)
            with ex.policy("generic"):
                return orig(full)

        cf.Combiner.drop_empty = staticmethod(drop_empty)
        return self

    def __exit__(self, *a):
        self._cf.Combiner.drop_empty = self._old


def run_combiner(P, *, obs, process, pid, Q2, scheme="ZM-VFNS", nf=3, ZMq=(True, True, True), pto=0, pto_evol=0,
                 fonllparts="full", target=None, x=0.1, m2hq=M2HQ, nc_pos=None, stage="elems", n3lo_cf_variation=0):
    """Kernels produced by the real Combiner for one configuration cell (nf fixed through cm.fixed_nf)."""
    import yadism.coefficient_functions as cf

    cc = make_coupling(P, process, pid, nc_pos)
    cfg = make_configs(cc, pto=pto, pto_evol=pto_evol, scheme=scheme, nf_ff=nf, ZMq=ZMq, m2hq=m2hq, threshold=nf,
                       target=target, fonllparts=fonllparts, n3lo_cf_variation=n3lo_cf_variation)
    esf = make_esf(cfg, obs, x, Q2)
    comb = cf.Combiner(esf)
    if stage == "collect":
        out = []
        for comp in comb.collect():
            out.extend(comp)
        return out
    return comb.collect_elems()
