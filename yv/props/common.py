"""Shared scaffolding: stub ESF/configs that the real yadism classes accept, class inventories."""

import importlib
import inspect
import os
import pkgutil

os.environ.setdefault("NUMBA_DISABLE_JIT", "1")

import numpy as np  # noqa: E402

from yadism import observable_name as on  # noqa: E402
from yadism.coefficient_functions import partonic_channel as pcmod  # noqa: E402

FAMILIES = ["light", "heavy", "asy", "intrinsic"]
KINDS = ["F2", "FL", "F3", "g1", "gL", "g4"]

# adani 1.1.0 (installed) no longer accepts the call made at import time of these two modules
# (environmental, DESIGN §6): exactly this signature is tolerated, anything else is reported.
ADANI_IMPORT_SIGNATURE = ("TypeError", "HighScaleSplitLogs")


class Info:
    """Stands for ESFInfo: attribute bag forwarding to a dict."""

    def __init__(self, **kw):
        self.__dict__.update(kw)


class StubESF:
    """What PartonicChannel classes read from an ESF: x, Q2, process, info."""

    def __init__(self, x, Q2, process="NC", info=None):
        self.x, self.Q2, self.process, self.info = x, Q2, process, info

    def __repr__(self):
        return f"StubESF({self.process})"


def family_modules(family):
    """All (name, module | exception) of yadism.coefficient_functions.<family>.<kind>_<proc>."""
    pkg = importlib.import_module(f"yadism.coefficient_functions.{family}")
    out = []
    for mi in pkgutil.iter_modules(pkg.__path__):
        n = mi.name
        if mi.ispkg or "_" not in n or n.split("_")[0].upper() not in [k.upper() for k in KINDS]:
            continue
        if n.endswith("_raw"):
            continue
        try:
            out.append((n, importlib.import_module(f"{pkg.__name__}.{n}")))
        except Exception as e:  # noqa
            out.append((n, e))
    return out


def channel_classes(mod):
    out = []
    for name, cls in sorted(vars(mod).items()):
        if inspect.isclass(cls) and issubclass(cls, pcmod.PartonicChannel) and not name.startswith("_"):
            if cls.__module__ == mod.__name__:
                out.append((name, cls))
    return out


def ctor_kwargs(cls):
    """Names of keyword-only mass arguments the class (or a base) requires."""
    need = []
    for k in inspect.signature(cls.__init__).parameters.values():
        if k.kind == k.KEYWORD_ONLY and k.default is k.empty:
            need.append(k.name)
    # subclasses with (*args, **kwargs) forward to a base: walk the MRO
    if not need:
        for b in cls.__mro__[1:]:
            if b is object or "__init__" not in vars(b):
                continue
            for k in inspect.signature(b.__init__).parameters.values():
                if k.kind == k.KEYWORD_ONLY and k.default is k.empty and k.name not in need:
                    need.append(k.name)
            if need:
                break
    return need


def is_adani_import_failure(exc):
    return type(exc).__name__ == ADANI_IMPORT_SIGNATURE[0] and ADANI_IMPORT_SIGNATURE[1] in repr(exc) + str(
        getattr(exc, "__traceback__", "")
    ) or _tb_mentions(exc, "adani") or _tb_mentions(exc, "HighScaleSplitLogs")


def _tb_mentions(exc, word):
    import traceback

    return word in "".join(traceback.format_exception(type(exc), exc, exc.__traceback__))
