"""C04 (partial) -- NLO quark and gluon coefficients of F2, FL, F3, g1 equal their published closed forms for all z.

Claimed clause only.  The real NLO kernels are reached through the light.{f2,fl,f3,g1}_{nc,cc} channel classes
and executed on a symbolic z; z3 proves equality with the MS-bar closed forms (a_s = alpha_s/4pi normalisation):
Bardeen-Buras-Duke-Muta / Furmanski-Petronzio for F2, FL, F3, Zijlstra-van Neerven / de Florian-Sassot for g1.
The sum-rule / Mellin-moment clauses are NOT claimed (definite integrals: no SMT encoding within reach).
"""

import math

import numpy as np
import z3

from yv.engine import explore, harness, real, stubs
from yv.engine.real import S, Ctx
from yv.props import common as cm

CF, TR = real.Fr(4, 3), real.Fr(1, 2)
# pi^2/6 to 30 digits as a rational (only the delta coefficient needs it, compared to 1e-12)
ZETA2 = real.Fr("1.644934066848226436472415166646")


def ref_quark(kind, z, log):
    """(regular part, [1/(1-z)]_+ coefficient, [ln(1-z)/(1-z)]_+ coefficient, delta coefficient)"""
    if kind == "FL":
        return 4 * CF * z, 0, 0, 0
    # c_{2,q}^{(1)} = CF{4[ln(1-z)/(1-z)]_+ - 3[1/(1-z)]_+ - 2(1+z)ln(1-z) - 2(1+z^2)/(1-z) ln z + 6 + 4z - (4 zeta2 + 9) delta}
    reg2 = CF * (-2 * (1 + z) * log(1 - z) - 2 * (1 + z * z) / (1 - z) * log(z) + 6 + 4 * z)
    if kind == "F2":
        reg = reg2
    elif kind in ("F3", "g1"):
        # c_{3,q}^{(1)} = c_{2,q}^{(1)} - 2 CF (1+z);  Delta c_q^{(1)} = c_{3,q}^{(1)}
        reg = reg2 - 2 * CF * (1 + z)
    else:
        raise ValueError(kind)
    return reg, -3 * CF, 4 * CF, -CF * (9 + 4 * ZETA2)


def ref_gluon(kind, z, log, nf):
    if kind == "F2":
        return 4 * nf * TR * ((1 - 2 * z + 2 * z * z) * log((1 - z) / z) - 1 + 8 * z * (1 - z))
    if kind == "FL":
        return 16 * nf * TR * z * (1 - z)
    if kind == "g1":
        return 4 * nf * TR * ((2 * z - 1) * (log((1 - z) / z) - 1) + 2 * (1 - z))
    return None  # F3 has no gluon coefficient


TARGETS = [
    ("F2", "f2_nc", "NonSinglet", "q"), ("F2", "f2_nc", "Gluon", "g"), ("F2", "f2_cc", "NonSingletEven", "q"), ("F2", "f2_cc", "NonSingletOdd", "q"),
    ("F2", "f2_cc", "Gluon", "g"), ("FL", "fl_nc", "NonSinglet", "q"), ("FL", "fl_nc", "Gluon", "g"), ("FL", "fl_cc", "NonSingletEven", "q"),
    ("FL", "fl_cc", "NonSingletOdd", "q"), ("FL", "fl_cc", "Gluon", "g"), ("F3", "f3_nc", "NonSinglet", "q"), ("F3", "f3_cc", "NonSingletEven", "q"),
    ("F3", "f3_cc", "NonSingletOdd", "q"), ("g1", "g1_nc", "NonSinglet", "q"), ("g1", "g1_nc", "Gluon", "g"),
]


def get_rsl(mod, cls, nf):
    import importlib

    m = importlib.import_module(f"yadism.coefficient_functions.light.{mod}")
    return getattr(m, cls)(cm.StubESF(0.1, 10.0, "NC", cm.Info()), nf)[1]()


def replay_nlo(args):
    kind, mod, cls, ch, nf, z = args["kind"], args["mod"], args["cls"], args["ch"], args["nf"], args["z"]
    rsl = get_rsl(mod, cls, nf)
    if rsl is None:
        return True, f"light.{mod}.{cls}: no NLO coefficient"
    got = float(rsl.reg(z, rsl.args["reg"]))
    if ch == "g":
        ref = float(ref_gluon(kind, z, math.log, nf))
        bad = abs(got - ref) > 1e-9 * max(1, abs(ref))
        return bad, f"light.{mod}.{cls} NLO gluon at z={z}: code {got}, published {ref}"
    reg, omx, logomx, delta = ref_quark(kind, z, math.log)
    msgs = []
    if abs(got - float(reg)) > 1e-9 * max(1, abs(float(reg))):
        msgs.append(f"regular part at z={z}: code {got}, published {float(reg)}")
    if rsl.sing is not None or omx != 0:
        s_got = float(rsl.sing(z, rsl.args["sing"])) if rsl.sing is not None else 0.0
        s_ref = (float(omx) + float(logomx) * math.log(1 - z)) / (1 - z)
        if abs(s_got - s_ref) > 1e-9 * max(1, abs(s_ref)):
            msgs.append(f"singular part at z={z}: code {s_got}, published {s_ref}")
        d_got = float(rsl.loc(0.0, rsl.args["loc"])) if rsl.loc is not None else 0.0
        if abs(d_got - float(delta)) > 1e-9:
            msgs.append(f"delta coefficient: code {d_got}, published {float(delta)}")
    return (True, f"light.{mod}.{cls}: " + "; ".join(msgs)) if msgs else (False, "equal to the closed form")


REPLAYERS = {"nlo": replay_nlo}


def run(chk, only=None):
    from yadism.coefficient_functions.light import nlo

    chk.encode(nlo.f2.ns_reg, nlo.f2.gluon_reg, nlo.fl.ns_reg, nlo.fl.gluon_reg, nlo.f3.ns_reg, nlo.g1.ns_reg, nlo.g1.gluon_reg)
    chk.bounds = {"z": "(0,1) symbolic, exact identity in (z, ln z, ln(1-z))", "nf": "3..6", "classes": [f"light.{m}.{c}" for _, m, c, _ in TARGETS],
                  "claim": "ONLY the NLO closed-form clause; Adler/GLS/Bjorken first moments and NNLO/N3LO Mellin moments are NOT claimed"}
    chk.assume("delta coefficients compared to 1e-12 with a 30-digit rational for zeta2", "a_s = alpha_s/(4 pi) normalisation of the published forms")
    for kind, mod, cls, ch in TARGETS:
        for nf in (3, 4, 5, 6) if chk.tier == "thorough" or ch == "g" else (4,):
            cname = f"light.{mod}.{cls}/NLO/nf{nf}"
            with Ctx(chk.seed) as ctx, stubs.cf_stubs():
                def rp(model, ctx=ctx, kind=kind, mod=mod, cls=cls, ch=ch, nf=nf):
                    asg = explore.model_to_assign(ctx, model)
                    return "nlo", dict(kind=kind, mod=mod, cls=cls, ch=ch, nf=nf, z=float(asg.get("z", ctx.assign.get("z", 0.37))))

                def body(kind=kind, mod=mod, cls=cls, ch=ch, nf=nf):
                    """all claims for one class as (label, key, claim term | bool) -- branches inside the kernels fork paths"""
                    z = ctx.var("z", 0, 1)
                    rsl = get_rsl(mod, cls, nf)
                    if rsl is None or rsl.reg is None:
                        return [("NLO regular coefficient present", "missing", False)]
                    out = []
                    got = S.lift(rsl.reg(z, rsl.args["reg"]))
                    if ch == "g":
                        out.append(("gluon coefficient", "gluon", got.t == S.lift(ref_gluon(kind, z, np.log, nf)).t))
                        out.append(("gluon coefficient has no distribution parts", "gluon-dist", rsl.sing is None and rsl.loc is None))
                        return out
                    reg, omx, logomx, delta = ref_quark(kind, z, np.log)
                    out.append(("regular part", "reg", got.t == S.lift(reg).t))
                    if omx == 0:
                        out.append(("FL quark coefficient has no distribution parts", "dist", rsl.sing is None and rsl.loc is None))
                        return out
                    if rsl.sing is None or rsl.loc is None:
                        return out + [("plus-distribution and delta parts present", "dist-missing", False)]
                    sing = S.lift(rsl.sing(z, rsl.args["sing"]))
                    out.append(("singular part", "sing", sing.t == S.lift((omx + logomx * np.log(1 - z)) / (1 - z)).t))
                    d = S.lift(rsl.loc(S.lift(0), rsl.args["loc"]))
                    tol = real.zval(real.Fr(1, 10**12))
                    out.append(("delta coefficient = -CF(9+4 zeta2)", "delta", z3.And(d.t - S.lift(delta).t < tol, S.lift(delta).t - d.t < tol)))
                    return out

                ex = explore.Explorer(ctx, max_paths=32, timeout_ms=3000)
                paths = ex.run(body)
                chk.paths += len(paths)
                for i, p in enumerate(paths):
                    ctx.assign = dict(p.assign)
                    if p.kind == "exc":
                        chk.obligations += 1
                        chk.report(f"nlo:{mod}.{cls}:raise", f"{cname}: raises {type(p.value).__name__}: {str(p.value)[:80]}", "nlo", rp(None)[1])
                        continue
                    for lab, k, claim in p.value:
                        if isinstance(claim, bool):
                            chk.obligations += 1
                            if claim:
                                chk.discharged += 1
                            else:
                                chk.report(f"nlo:{mod}.{cls}:{k}", f"{cname}: {lab} -- violated", "nlo", rp(None)[1])
                            continue
                        chk.prove(f"{cname}/path{i}: {lab}", claim, ctx.facts() + p.pc, key=f"nlo:{mod}.{cls}:{k}", replay=rp,
                                  what=f"{cname}: {lab} differs from the published closed form")
    with Ctx(chk.seed) as ctx:
        z = ctx.var("z", 0, 1)
        a = ref_quark("F2", z, np.log)[0]
        b = ref_quark("F3", z, np.log)[0]
        chk.expect_sat("perturbed oracle (F3 form for F2)", ctx.facts() + [S.lift(a).t != S.lift(b).t], what="perturbation", ctx=ctx)
        chk.expect_sat("domain", ctx.facts())
    return chk.finish(
        explanation="The NLO kernels, reached through the light channel classes (NC and the CC even/odd aliases), are executed on a symbolic z "
        "and z3 proves, as an exact identity in (z, ln z, ln(1-z)), equality of the regular parts, plus-distribution coefficients and "
        "(to 1e-12) delta coefficients with the published MS-bar closed forms for F2, FL, F3 and g1, quark and gluon, nf 3..6. The "
        "sum-rule and Mellin-moment clauses of C04 are not claimed.",
        rule="one obligation per (class, nf, part); distinct = (class, part); non-trivial = symbolic z",
    )
