"""C04 -- NLO closed forms for all z, and the Adler / Gross-Llewellyn-Smith / Bjorken first moments.

Closed forms.  The real NLO kernels are reached through the light.{f2,fl,f3,g1}_{nc,cc} channel classes
and executed on a symbolic z; z3 proves equality with the MS-bar closed forms (a_s = alpha_s/4pi normalisation):
Bardeen-Buras-Duke-Muta / Furmanski-Petronzio for F2, FL, F3, Zijlstra-van Neerven / de Florian-Sassot for g1.

First moments.  The regular part of every non-singlet kernel that enters a sum rule is executed once on the formal
generator z of yv.engine.formal (finite sums of c(nf) z^a ln^b z ln^c(1-z) (1-z)^-d, nf a z3 Real): the kernel's own
arithmetic produces its exact expansion, the integral over (0,1) is linear in the coefficients, and together with the
local part at x = 0 (plus-distributions integrate to zero, their consistency with the local part is C03) the first
moment is a polynomial in nf.  z3 decides, for every real nf in [3,6], |moment(nf) - series coefficient(nf)| <= tau.
tau is 1e-9 at NLO (exact forms) and the accuracy of the published x-space parametrisations at NNLO (0.03) and N3LO
(0.25) -- the moments are O(50) and O(1000) there.  Mellin moments other than N = 1 are not claimed.
"""

import math

import numpy as np
import z3

from yv.engine import explore, formal, harness, real, stubs
from yv.engine.real import S, Ctx
from yv.props import common as cm

CF, TR = real.Fr(4, 3), real.Fr(1, 2)
# pi^2/6 to 30 digits as a rational (only the delta coefficient needs it, compared to 1e-12)
ZETA2 = real.Fr("1.644934066848226436472415166646")


def ref_quark(kind, z, log):
    """(regular part, [1/(1-z)]_+ coefficient, [ln(1-z)/(1-z)]_+ coefficient, delta coefficient)"""
    if kind == "FL":
        return 4 * CF * z, 0, 0, 0
    # c_{2,q}^{(1)} = CF{4[ln(1-z)/(1-z)]_+ - 3[1/(1-z)]_+ - 2(1+z)ln(1-z) - 2(1+z^2)/(1-z) ln z + 6 + 4z - (4 zeta2 + 9) delta}
    reg2 = CF * (-2 * (1 + z) * log(1 - z) - 2 * (1 + z * z) / (1 - z) * log(z) + 6 + 4 * z)
    if kind == "F2":
        reg = reg2
    elif kind in ("F3", "g1"):
        # c_{3,q}^{(1)} = c_{2,q}^{(1)} - 2 CF (1+z);  Delta c_q^{(1)} = c_{3,q}^{(1)}
        reg = reg2 - 2 * CF * (1 + z)
    else:
        raise ValueError(kind)
    return reg, -3 * CF, 4 * CF, -CF * (9 + 4 * ZETA2)


def ref_gluon(kind, z, log, nf):
    if kind == "F2":
        return 4 * nf * TR * ((1 - 2 * z + 2 * z * z) * log((1 - z) / z) - 1 + 8 * z * (1 - z))
    if kind == "FL":
        return 16 * nf * TR * z * (1 - z)
    if kind == "g1":
        return 4 * nf * TR * ((2 * z - 1) * (log((1 - z) / z) - 1) + 2 * (1 - z))
    return None  # F3 has no gluon coefficient


TARGETS = [
    ("F2", "f2_nc", "NonSinglet", "q"), ("F2", "f2_nc", "Gluon", "g"), ("F2", "f2_cc", "NonSingletEven", "q"), ("F2", "f2_cc", "NonSingletOdd", "q"),
    ("F2", "f2_cc", "Gluon", "g"), ("FL", "fl_nc", "NonSinglet", "q"), ("FL", "fl_nc", "Gluon", "g"), ("FL", "fl_cc", "NonSingletEven", "q"),
    ("FL", "fl_cc", "NonSingletOdd", "q"), ("FL", "fl_cc", "Gluon", "g"), ("F3", "f3_nc", "NonSinglet", "q"), ("F3", "f3_cc", "NonSingletEven", "q"),
    ("F3", "f3_cc", "NonSingletOdd", "q"), ("g1", "g1_nc", "NonSinglet", "q"), ("g1", "g1_nc", "Gluon", "g"),
]


def get_rsl(mod, cls, nf):
    import importlib

    m = importlib.import_module(f"yadism.coefficient_functions.light.{mod}")
    return getattr(m, cls)(cm.StubESF(0.1, 10.0, "NC", cm.Info()), nf)[1]()


def replay_nlo(args):
    kind, mod, cls, ch, nf, z = args["kind"], args["mod"], args["cls"], args["ch"], args["nf"], args["z"]
    rsl = get_rsl(mod, cls, nf)
    if rsl is None:
        return True, f"light.{mod}.{cls}: no NLO coefficient"
    got = float(rsl.reg(z, rsl.args["reg"]))
    if ch == "g":
        ref = float(ref_gluon(kind, z, math.log, nf))
        bad = abs(got - ref) > 1e-9 * max(1, abs(ref))
        return bad, f"light.{mod}.{cls} NLO gluon at z={z}: code {got}, published {ref}"
    reg, omx, logomx, delta = ref_quark(kind, z, math.log)
    msgs = []
    if abs(got - float(reg)) > 1e-9 * max(1, abs(float(reg))):
        msgs.append(f"regular part at z={z}: code {got}, published {float(reg)}")
    if rsl.sing is not None or omx != 0:
        s_got = float(rsl.sing(z, rsl.args["sing"])) if rsl.sing is not None else 0.0
        s_ref = (float(omx) + float(logomx) * math.log(1 - z)) / (1 - z)
        if abs(s_got - s_ref) > 1e-9 * max(1, abs(s_ref)):
            msgs.append(f"singular part at z={z}: code {s_got}, published {s_ref}")
        d_got = float(rsl.loc(0.0, rsl.args["loc"])) if rsl.loc is not None else 0.0
        if abs(d_got - float(delta)) > 1e-9:
            msgs.append(f"delta coefficient: code {d_got}, published {float(delta)}")
    return (True, f"light.{mod}.{cls}: " + "; ".join(msgs)) if msgs else (False, "equal to the closed form")


# ---- first moments (Adler, Gross-Llewellyn-Smith, Bjorken) -----------------------------------------------------------------
ZETA3 = real.Fr("1.202056903159594285399738161511")
ZETA5 = real.Fr("1.036927755143369926331365486457")
Fr = real.Fr


def bj2(nf):
    """a_s^2 coefficient of the Bjorken/GLS series (Gorishny-Larin 1986), a_s = alpha_s/(4 pi)"""
    return -16 * (Fr(55, 12) - nf / 3)


def bj3(nf):
    """a_s^3 coefficient of the Bjorken series (Larin-Vermaseren 1991) = GLS without the light-by-light (fl02) term"""
    return -64 * (Fr(13841, 216) + Fr(44, 9) * ZETA3 - Fr(55, 2) * ZETA5 - nf * (Fr(10339, 1296) + Fr(61, 54) * ZETA3 - Fr(5, 3) * ZETA5)
                  + Fr(115, 648) * nf * nf)


def gls_fl02(nf):
    """light-by-light term of the GLS series: + nf (d^abc d_abc / Nc = 10/3) (zeta3/6 - 11/144) (alpha_s/pi)^3"""
    return 64 * nf * Fr(10, 3) * (ZETA3 / 6 - Fr(11, 144))


TAU = {"NLO": Fr(1, 10**9), "NNLO": Fr(3, 100), "N3LO": Fr(1, 4)}
# (sum rule, module, class, order, reference(nf))
MOMENTS = [
    ("Adler", "f2_cc", "NonSingletOdd", "NLO", lambda nf: 0 * nf), ("Adler", "f2_cc", "NonSingletOdd", "NNLO", lambda nf: 0 * nf),
    ("Adler", "f2_cc", "NonSingletOdd", "N3LO", lambda nf: 0 * nf),
    ("GLS", "f3_cc", "NonSingletOdd", "NLO", lambda nf: -4 + 0 * nf), ("GLS", "f3_cc", "NonSingletOdd", "NNLO", bj2), ("GLS", "f3_cc", "NonSingletOdd", "N3LO", bj3),
    ("GLS", "f3_cc", "Valence", "N3LO", gls_fl02),
    ("GLS", "f3_nc", "NonSinglet", "NLO", lambda nf: -4 + 0 * nf), ("GLS", "f3_nc", "NonSinglet", "NNLO", bj2), ("GLS", "f3_nc", "NonSinglet", "N3LO", bj3),
    ("GLS", "f3_nc", "Valence", "N3LO", gls_fl02),
    ("Bjorken", "g1_nc", "NonSinglet", "NLO", lambda nf: -4 + 0 * nf), ("Bjorken", "g1_nc", "NonSinglet", "NNLO", bj2),
]


def get_rsl_order(mod, cls, order, nf):
    import importlib

    m = importlib.import_module(f"yadism.coefficient_functions.light.{mod}")
    return getattr(getattr(m, cls)(cm.StubESF(0.1, 10.0, "NC", cm.Info()), nf), order)()


def sym_args(a4, a5, NF):
    """argument vector with nf replaced by the symbol: the entries that are 4 for nf=4 and 5 for nf=5"""
    out = []
    for x, y in zip(list(a4), list(a5)):
        if float(x) == 4.0 and float(y) == 5.0:
            out.append(NF)
        elif float(x) == float(y):
            out.append(float(x))
        else:
            raise formal.NotFormal(f"argument depends on nf in an unknown way ({x} at nf=4, {y} at nf=5)")
    return out


def float_moment(mod, cls, order, nf):
    """first moment by float quadrature of the real kernel (replay)"""
    import scipy.integrate as si

    rsl = get_rsl_order(mod, cls, order, 4)
    rsl5 = get_rsl_order(mod, cls, order, 5)
    tot = 0.0
    if rsl.reg is not None:
        args = np.array(sym_args(rsl.args["reg"], rsl5.args["reg"], float(nf)), dtype=float)
        tot += si.quad(lambda z: float(rsl.reg(z, args)), 0, 1, epsabs=1e-11, epsrel=1e-11, limit=500)[0]
    if rsl.loc is not None:
        args = np.array(sym_args(rsl.args["loc"], rsl5.args["loc"], float(nf)), dtype=float)
        tot += float(rsl.loc(0.0, args))
    return tot


def replay_moment(args):
    import warnings

    rule, mod, cls, order, nf = args["rule"], args["mod"], args["cls"], args["order"], float(args["nf"])
    ref = float([m for m in MOMENTS if m[:4] == (rule, mod, cls, order)][0][4](real.tofrac(nf)))
    with warnings.catch_warnings():
        warnings.simplefilter("ignore")
        got = float_moment(mod, cls, order, nf)
    tau = float(TAU[order])
    bad = abs(got - ref) > tau * (1 - 1e-6) + 1e-9
    return bad, f"light.{mod}.{cls} {order} at nf={nf}: first moment {got:.9g}, {rule} series coefficient {ref:.9g} (tolerance {tau:g})"


REPLAYERS = {"nlo": replay_nlo, "moment": replay_moment}


def run_moments(chk):
    chk.section("moments")
    nid = formal.table_selfcheck()
    done = []
    for rule, mod, cls, order, ref in MOMENTS:
        cname = f"light.{mod}.{cls}/{order}/first-moment"
        with Ctx(chk.seed) as ctx:
            NF = ctx.var("nf", 3, 6, lo_open=False, hi_open=False)
            try:
                rsl, rsl5 = get_rsl_order(mod, cls, order, 4), get_rsl_order(mod, cls, order, 5)
                if rsl is None or rsl.reg is None:
                    chk.obligations += 1
                    chk.report(f"mom:{mod}.{cls}:{order}:missing", f"{cname}: no coefficient function at this order", "moment",
                               dict(rule=rule, mod=mod, cls=cls, order=order, nf=4))
                    continue
                expr = formal.Poly.lift(rsl.reg(formal.Z, sym_args(rsl.args["reg"], rsl5.args["reg"], NF)))
                # translator validation: the expansion is the kernel (floats, real code) at three points
                for zz, nn in ((0.37, 4.0), (0.011, 3.0), (0.93, 6.0)):
                    fa = np.array(sym_args(rsl.args["reg"], rsl5.args["reg"], nn), dtype=float)
                    want = float(rsl.reg(zz, fa))
                    have = expr.evaluate(zz, lambda c, nn=nn: float(z3.simplify(z3.substitute(c.t, (NF.t, real.zval(real.tofrac(nn))))).as_fraction())
                                         if c.const is None else float(c.const))
                    chk.tv_note(cname, abs(have - want) <= 1e-9 * max(1.0, abs(want)), f"expansion {have!r} vs kernel {want!r} at z={zz}, nf={nn}")
                mom = expr.integral()
                if rsl.loc is not None:
                    mom = mom + S.lift(rsl.loc(0.0, sym_args(rsl.args["loc"], rsl5.args["loc"], NF)))
            except formal.NotFormal as e:
                chk.inconclusive_note(f"{cname}: kernel outside the formal algebra ({e})")
                continue
            tau = real.zval(TAU[order])
            r = S.lift(ref(NF))
            claim = z3.And(mom.t - r.t <= tau, r.t - mom.t <= tau)

            def rp(model, ctx=ctx, rule=rule, mod=mod, cls=cls, order=order):
                asg = explore.model_to_assign(ctx, model)
                return "moment", dict(rule=rule, mod=mod, cls=cls, order=order, nf=float(asg.get("nf", ctx.assign.get("nf", 4))))

            chk.prove(f"{cname}: |moment - {rule} coefficient| <= {float(TAU[order]):g} for all nf in [3,6]", claim, ctx.facts(), key=f"mom:{mod}.{cls}:{order}",
                      replay=rp, what=f"{cname}: first moment differs from the {rule} series coefficient")
            done.append((cname, len(expr.t)))
            if (mod, cls, order) == ("f3_nc", "NonSinglet", "NNLO"):
                # vacuity guard: a reference displaced by 3 tau must be refutable
                chk.expect_sat("displaced reference is refuted", ctx.facts() + [z3.Not(z3.And(mom.t - r.t - 3 * tau <= tau, r.t + 3 * tau - mom.t <= tau))],
                               what="perturbation", ctx=ctx)
    chk.sections["moments"] = {"classes": [d[0] for d in done], "monomials_per_kernel": {d[0]: d[1] for d in done},
                               "integral_table_entries": formal.monomial_integral.cache_info().currsize, "table_identities_checked": nid,
                               "tolerances": {k: float(v) for k, v in TAU.items()}}


def run(chk, only=None):
    from yadism.coefficient_functions.light import nlo

    chk.encode(nlo.f2.ns_reg, nlo.f2.gluon_reg, nlo.fl.ns_reg, nlo.fl.gluon_reg, nlo.f3.ns_reg, nlo.g1.ns_reg, nlo.g1.gluon_reg)
    chk.bounds = {"z": "(0,1) symbolic, exact identity in (z, ln z, ln(1-z))", "nf": "3..6", "classes": [f"light.{m}.{c}" for _, m, c, _ in TARGETS],
                  "first moments": {"classes": [f"light.{m}.{c}/{o} ({r})" for r, m, c, o, _ in MOMENTS], "nf": "every real nf in [3,6]",
                                    "tolerance": {k: float(v) for k, v in TAU.items()}},
                  "claim": "NLO closed forms for all z; Adler, GLS (incl. the fl02 light-by-light class) and Bjorken first moments at every available order. "
                           "Mellin moments other than N=1 are NOT claimed"}
    chk.assume("delta coefficients compared to 1e-12 with a 30-digit rational for zeta2", "a_s = alpha_s/(4 pi) normalisation of the published forms",
               "first moments: integrals of the monomials z^a ln^b z ln^c(1-z) (1-z)^-d are taken from a 35-digit table (mpmath quadrature, checked against "
               "closed forms); plus-distributions integrate to zero (their consistency with the local part is C03)",
               "first moments: tolerance 1e-9 (NLO, exact forms), 0.03 (NNLO) and 0.25 (N3LO): accuracy of the published x-space parametrisations "
               "(moments are O(50) resp. O(1000)); series coefficients from Gorishny-Larin 1986 and Larin-Vermaseren 1991")
    if only in (None, "moments"):
        chk.encode(*[f for f in (getattr(get_rsl_order(m, c, o, 4), "reg", None) for _, m, c, o, _ in MOMENTS) if f is not None])
        run_moments(chk)
    if only == "moments":
        return chk.finish(explanation="first moments only (developer run)", rule="one obligation per (class, order)")
    for kind, mod, cls, ch in TARGETS:
        for nf in (3, 4, 5, 6) if chk.tier == "thorough" or ch == "g" else (4,):
            cname = f"light.{mod}.{cls}/NLO/nf{nf}"
            with Ctx(chk.seed) as ctx, stubs.cf_stubs():
                def rp(model, ctx=ctx, kind=kind, mod=mod, cls=cls, ch=ch, nf=nf):
                    asg = explore.model_to_assign(ctx, model)
                    return "nlo", dict(kind=kind, mod=mod, cls=cls, ch=ch, nf=nf, z=float(asg.get("z", ctx.assign.get("z", 0.37))))

                def body(kind=kind, mod=mod, cls=cls, ch=ch, nf=nf):
                    """all claims for one class as (label, key, claim term | bool) -- branches inside the kernels fork paths"""
                    z = ctx.var("z", 0, 1)
                    rsl = get_rsl(mod, cls, nf)
                    if rsl is None or rsl.reg is None:
                        return [("NLO regular coefficient present", "missing", False)]
                    out = []
                    got = S.lift(rsl.reg(z, rsl.args["reg"]))
                    if ch == "g":
                        out.append(("gluon coefficient", "gluon", got.t == S.lift(ref_gluon(kind, z, np.log, nf)).t))
                        out.append(("gluon coefficient has no distribution parts", "gluon-dist", rsl.sing is None and rsl.loc is None))
                        return out
                    reg, omx, logomx, delta = ref_quark(kind, z, np.log)
                    out.append(("regular part", "reg", got.t == S.lift(reg).t))
                    if omx == 0:
                        out.append(("FL quark coefficient has no distribution parts", "dist", rsl.sing is None and rsl.loc is None))
                        return out
                    if rsl.sing is None or rsl.loc is None:
                        return out + [("plus-distribution and delta parts present", "dist-missing", False)]
                    sing = S.lift(rsl.sing(z, rsl.args["sing"]))
                    out.append(("singular part", "sing", sing.t == S.lift((omx + logomx * np.log(1 - z)) / (1 - z)).t))
                    d = S.lift(rsl.loc(S.lift(0), rsl.args["loc"]))
                    tol = real.zval(real.Fr(1, 10**12))
                    out.append(("delta coefficient = -CF(9+4 zeta2)", "delta", z3.And(d.t - S.lift(delta).t < tol, S.lift(delta).t - d.t < tol)))
                    return out

                ex = explore.Explorer(ctx, max_paths=32, timeout_ms=3000)
                paths = ex.run(body)
                chk.paths += len(paths)
                for i, p in enumerate(paths):
                    ctx.assign = dict(p.assign)
                    if p.kind == "exc":
                        chk.obligations += 1
                        chk.report(f"nlo:{mod}.{cls}:raise", f"{cname}: raises {type(p.value).__name__}: {str(p.value)[:80]}", "nlo", rp(None)[1])
                        continue
                    for lab, k, claim in p.value:
                        if isinstance(claim, bool):
                            chk.obligations += 1
                            if claim:
                                chk.discharged += 1
                            else:
                                chk.report(f"nlo:{mod}.{cls}:{k}", f"{cname}: {lab} -- violated", "nlo", rp(None)[1])
                            continue
                        chk.prove(f"{cname}/path{i}: {lab}", claim, ctx.facts() + p.pc, key=f"nlo:{mod}.{cls}:{k}", replay=rp,
                                  what=f"{cname}: {lab} differs from the published closed form")
    with Ctx(chk.seed) as ctx:
        z = ctx.var("z", 0, 1)
        a = ref_quark("F2", z, np.log)[0]
        b = ref_quark("F3", z, np.log)[0]
        chk.expect_sat("perturbed oracle (F3 form for F2)", ctx.facts() + [S.lift(a).t != S.lift(b).t], what="perturbation", ctx=ctx)
        chk.expect_sat("domain", ctx.facts())
    return chk.finish(
        explanation="The NLO kernels, reached through the light channel classes (NC and the CC even/odd aliases), are executed on a symbolic z "
        "and z3 proves, as an exact identity in (z, ln z, ln(1-z)), equality of the regular parts, plus-distribution coefficients and "
        "(to 1e-12) delta coefficients with the published MS-bar closed forms for F2, FL, F3 and g1, quark and gluon, nf 3..6. "
        "First moments: the regular part of each non-singlet kernel entering the Adler, GLS and Bjorken sum rules (NLO, NNLO, N3LO; g1 to NNLO) is executed "
        "on a formal z, which turns it into its exact expansion in z^a ln^b z ln^c(1-z); integrated term by term and added to the local part at x=0 it is a "
        "polynomial in nf that z3 compares with the series coefficient for every real nf in [3,6] (tolerance = accuracy of the parametrisations). "
        "Mellin moments other than N=1 are not claimed.",
        rule="one obligation per (class, nf, part) resp. (class, order); distinct = (class, part); non-trivial = symbolic z resp. symbolic nf",
    )
