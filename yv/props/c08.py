"""C08 (partial) -- FFN0 is the high-virtuality limit of FFNS: the charged-current heavy-quark channels.

What is decided: for the CC heavy-quark coefficient functions that yadism itself writes in closed form (Gluck, Kretzer, Reya:
heavy/f2_cc, fl_cc, f3_cc, quark and gluon channel, LO and NLO) the real classes are run with a SYMBOLIC mass.  Under the
hypothesis  m2 = 0  (lambda = Q2/(Q2+m2) = 1; every power correction dropped) with the collinear logarithm kept as a FORMAL
quantity  ln(1-lambda) = -L,  L = ln(Q2/m2)  (an unconstrained real: the atom of log(1-lambda) is a free variable, linked to the L
the asymptotic classes compute), z3 proves that each part (regular, singular, local) equals the part of the asymptotic (FFN0) class
asy/f*_cc.AsyQuark / AsyGluon for ALL z in (0,1), x, Q2 and ALL values of L.  Since every remaining ingredient is a continuous
function of lambda at lambda = 1 on these paths (no division by 1-lambda is met: checked as an obligation; (1-lambda) ln(1-lambda)
-> 0 is exactly what 0 * L = 0 says), this is the statement
        lim_{m2/Q2 -> 0} [massive(z; m2/Q2) - asymptotic(z; L)] = 0   with all logarithms retained,
i.e. the difference is power suppressed (times logarithms).

What is NOT decided (stated, not claimed): the neutral-current heavy channels (LeProHQ / adani / tabulated grids: external, uninterpreted
here), the intrinsic channels, the 'missing' O(a_s^2) terms, the rate (which power), and the numerical size at finite Q2/m2.
"""

import importlib

import z3

from yv.engine import explore, real, solve, stubs
from yv.engine.real import S, Ctx
from yv.props import common as cm

SHARDABLE = True  # the couplings clause is partitioned by cell; the CC limit and the vacuity twin run in shard 0
PAIRS = [("NonSinglet", "AsyQuark"), ("Gluon", "AsyGluon")]
KINDS = ["f2", "fl", "f3"]
TAU = "1/1000000000"


def build(ctx, kind, hname, aname, order, vals=None):
    """the two real objects on symbolic (or float) kinematics; returns (heavy obj, asy obj, heavy RSL, asy RSL, z)"""
    hm = importlib.import_module(f"yadism.coefficient_functions.heavy.{kind}_cc")
    am = importlib.import_module(f"yadism.coefficient_functions.asy.{kind}_cc")
    if ctx is not None:
        x = ctx.var("x", 0, 1)
        Q2 = ctx.var("Q2", 0, None, wlo=5, whi=50)
        m2 = ctx.var("m2", 0, None, lo_open=False, wlo=1, whi=3)
        z = ctx.var("z", 0, 1)
    else:
        x, Q2, m2, z = vals["x"], vals["Q2"], vals["m2"], vals["z"]
    esf = cm.StubESF(x, Q2, "CC", cm.Info())
    h = getattr(hm, hname)(esf, 3, m2hq=m2)
    a = getattr(am, aname)(esf, 3, m2hq=m2)
    return h, a, h[order](), a[order](), z, m2


def part_value(rsl, part, z):
    if rsl is None:
        return 0
    f = getattr(rsl, part)
    if f is None:
        return 0
    return f(z, rsl.args[part])


def denominators(term):
    """denominators of every division (and base of every negative power) in a z3 term (DAG walk, memoised)"""
    seen, out, stack = set(), [], [term]
    while stack:
        t = stack.pop()
        if t.get_id() in seen:
            continue
        seen.add(t.get_id())
        if z3.is_app(t):
            k = t.decl().kind()
            ch = t.children()
            if k == z3.Z3_OP_DIV and len(ch) == 2 and not z3.is_rational_value(ch[1]):
                out.append(ch[1])
            if k == z3.Z3_OP_POWER and len(ch) == 2 and z3.is_rational_value(ch[1]) and ch[1].numerator_as_long() < 0:
                out.append(ch[0])
            stack.extend(ch)
    return out


def replay_limit(args):
    """float run of the real classes at Q2/m2 = 1e4, 1e6, 1e8: a difference that does not die out reproduces the violation"""
    import numpy as np

    out = []
    for ratio in (1e4, 1e6, 1e8):
        v = dict(x=args["x"], Q2=args["Q2"], m2=args["Q2"] / ratio, z=args["z"])
        h, a, hr, ar, z, _ = build(None, args["kind"], args["hname"], args["aname"], args["order"], v)
        if args["part"] == "reg+sing":
            dh = float(np.real(part_value(hr, "reg", z))) + float(np.real(part_value(hr, "sing", z)))
            da = float(np.real(part_value(ar, "reg", z))) + float(np.real(part_value(ar, "sing", z)))
        else:
            dh, da = float(np.real(part_value(hr, args["part"], z))), float(np.real(part_value(ar, args["part"], z)))
        out.append((ratio, dh, da))
    r, dh, da = out[-1]
    # a power-suppressed difference is below 1e-8 * log^2 ~ 4e-6 at Q2/m2 = 1e8
    if abs(dh - da) > 1e-4 * (1 + abs(da)):
        return True, (f"heavy.{args['kind']}_cc.{args['hname']}/o{args['order']}/{args['part']} at z={args['z']}, x={args['x']}: massive - asymptotic = "
                      + ", ".join(f"{h_ - a_:.3e} at Q2/m2={r_:g}" for r_, h_, a_ in out) + " (does not vanish)")
    return False, "difference dies out with Q2/m2"


REPLAYERS = {"limit": replay_limit}


def run_weights(chk):
    """FFNS vs FFN0 (and the FONLL legs FONLL-FFNS vs FONLL-FFN0) through the real Combiner with symbolic electroweak parameters and Q2: for every heavy-quark channel family (quark-initiated incl. the
    'missing' term, gluon, singlet, intrinsic) the SET of parton-weight vectors of the massive kernels equals the set carried by the asymptotic kernels that
    replace them (a limit can only hold channel by channel if the couplings agree); decided parton by parton by z3 for all parameter values."""
    import z3 as _z3

    cells = WEIGHT_CELLS if chk.tier != "quick" else [c for i, c in enumerate(WEIGHT_CELLS) if i % 7 == 0 or (c[0] == "F2" and c[1] in ("light", "total") and c[2] == "EM" and c[5] == 2)]
    n = 0
    for cell in cells:
        cname = "weights:" + ":".join(str(c) for c in cell)
        if not chk.mine(cname):
            continue
        with Ctx(chk.seed) as ctx, cm.fixed_nf(), cm.generic_drop_empty(), stubs.cf_stubs():
            def body(cell=cell):
                return weight_forms(ctx, cell, SCHEMES[cell[6]][0]), weight_forms(ctx, cell, SCHEMES[cell[6]][1])

            ex = explore.Explorer(ctx, max_paths=8, timeout_ms=3000)
            paths = ex.run(body)
            chk.paths += len(paths)
            for i, p in enumerate(paths):
                ctx.assign = dict(p.assign)
                if p.kind == "exc":
                    chk.notes.append(f"{cname}/path{i}: raises {type(p.value).__name__}: {str(p.value)[:80]} (C16)")
                    continue
                a, b = p.value
                fams = sorted({f for f, _ in list(a) + list(b)})
                for fam in fams:
                    fa = [w for (f, m), ws in a.items() if f == fam for w in ws]
                    fb = [w for (f, m), ws in b.items() if f == fam for w in ws]
                    for src, dst, what in ((fa, fb, "massive -> asymptotic"), (fb, fa, "asymptotic -> massive")):
                        if fam == "intrinsic" and what == "massive -> asymptotic":
                            # the massive heavy-quark-initiated channels come in pairs (S+/S-, R+/R-) with couplings VV+AA and VV-AA; the second member is
                            # itself power suppressed (~ m1 m2/Q2) and has no asymptotic twin: only the direction asymptotic -> massive is a claim
                            continue
                        for w in src:
                            chk.obligations += 1
                            chk.evaluations += 1
                            chk.nontrivial.add(f"{cname}/{fam}")
                            n += 1
                            # some twin carries the same weight for every parton (absent = 0), for all electroweak parameters and Q2
                            alts = []
                            for w2 in dst:
                                keys = set(w) | set(w2)
                                alts.append(_z3.And(*[S.lift(w.get(k, 0)).t == S.lift(w2.get(k, 0)).t for k in keys]))
                            zero = _z3.And(*[S.lift(v).t == 0 for v in w.values()])
                            v = chk.prover.prove(_z3.Or(zero, *alts) if alts else zero, ctx.facts() + list(p.pc), f"{cname}/{fam}: {what}")
                            if v.status == "unsat":
                                chk.discharged += 1
                                continue
                            if v.status == "unknown":
                                chk.inconclusive_note(f"{cname}/{fam}: solver returned unknown")
                                continue
                            asg = explore.model_to_assign(ctx, v.model)
                            params = {k_: float(asg.get(k_, ctx.assign.get(k_, 1))) for k_ in list(cm.EW_PARAMS) + ["Q2"]}
                            chk.report(f"weights:{fam}:{cell[0]}:{cell[2]}", f"{cname}: a {fam} kernel ({what}) has no twin with the same parton weights", "weights",
                                       dict(cell=list(cell), family=fam, params=params))
    chk.section("weights", cells=len(cells), kernel_weight_vectors=n)


# ---- couplings: the asymptotic kernels carry the weights of the massive kernels they stand for -----------------------------------------------

def family(cls):
    n = cls.__name__
    if n in ("Splus", "Sminus", "Rplus", "Rminus") or "Intrinsic" in n:
        return "intrinsic"
    if "NonSinglet" in n or "Quark" in n:
        return "quark"
    if "Gluon" in n:
        return "gluon"
    if "Singlet" in n or "Valence" in n:
        return "singlet"
    return n


WEIGHT_CELLS = [(kind, flav, proc, pid, nf, pto, pair) for pair in ("FFN", "FONLL") for kind in ("F2", "FL", "F3", "g1") for flav in ("total", "light", "charm", "bottom")
                for proc, pid in (("EM", 11), ("NC", 11), ("NC", -12), ("CC", 12), ("CC", -11)) for nf in (3, 4) for pto in (1, 2)
                if not (proc == "EM" and kind == "F3") and not (proc == "CC" and kind == "g1") and not (flav == "charm" and nf == 4)]
SCHEMES = {"FFN": ("FFNS", "FFN0"), "FONLL": ("FONLL-FFNS", "FONLL-FFN0")}  # the massive scheme and the asymptotic one that replaces it


def weight_forms(ctx_or_vals, cell, scheme):
    """{(family, mass key): [weights dict, ...]} of the heavy-quark kernels (massive: heavy/intrinsic modules; asymptotic: asy modules) the real Combiner collects"""
    import yadism.coefficient_functions as cf

    kind, flav, proc, pid, nf, pto, pair = cell
    if hasattr(ctx_or_vals, "var"):
        P = cm.ew_params(ctx_or_vals)
        Q2 = ctx_or_vals.var("Q2", 0, None, wlo=30, whi=90)
    else:
        P = cm.ew_params(values=ctx_or_vals)
        Q2 = ctx_or_vals.get("Q2", 50.0)
    cc = cm.make_coupling(P, proc, pid)
    # fixed-flavour schemes: the first NfFF-3 heavy quarks are massless, the others massive; FONLL legs: only flavour NfFF+1 is massive
    zm = tuple(i < nf - 3 for i in range(3)) if pair == "FFN" else tuple(i != nf - 3 for i in range(3))
    cfg = cm.make_configs(cc, pto=pto, pto_evol=pto, scheme=scheme, nf_ff=nf, ZMq=zm, m2hq=cm.M2HQ, threshold=nf)
    ks = cf.Combiner(cm.make_esf(cfg, f"{kind}_{flav}", 0.1, Q2)).collect_elems()
    out = {}
    for k in ks:
        mod = type(k.coeff).__module__
        if not any(f".{m}." in mod for m in ("heavy", "intrinsic", "asy")):
            continue
        c = k.coeff
        mkey = None
        for attr in ("m2hq", "m1sq", "_yv_m2"):
            if hasattr(c, attr):
                mkey = getattr(c, attr)
                break
        out.setdefault((family(type(c)), mass_index(c)), []).append(dict(k.partons))
    return out


def mass_index(c):
    """which heavy quark a kernel belongs to (index into M2HQ), read off the mass the class was built with"""
    for attr in ("m2hq", "m1sq", "m2sq"):
        v = getattr(c, attr, None)
        if v is not None and not hasattr(v, "t"):
            for i, m in enumerate(cm.M2HQ):
                if abs(float(v) - float(m)) < 1e-9:
                    return i
    L = getattr(c, "L", None)
    if L is not None:
        return ("L", str(getattr(L, "t", L))[:60])
    return None


def replay_weights(args):
    cell = tuple(args["cell"])
    with cm.fixed_nf():
        a, b = weight_forms(dict(args["params"]), cell, SCHEMES[cell[6]][0]), weight_forms(dict(args["params"]), cell, SCHEMES[cell[6]][1])
    fam = args["family"]
    fa = [w for (f, m), ws in a.items() if f == fam for w in ws]
    fb = [w for (f, m), ws in b.items() if f == fam for w in ws]
    def key(w):
        return tuple(sorted((p, round(float(v), 10)) for p, v in w.items() if abs(float(v)) > 1e-12))
    sa, sb = {key(w) for w in fa} - {()}, {key(w) for w in fb} - {()}
    if fam == "intrinsic":
        sa = sa | sb if sb <= sa else sa  # only asymptotic -> massive is claimed for the heavy-quark-initiated channels
    if sa != sb:
        return True, f"{cell}: {fam} kernels: massive weights {sorted(sa - sb)[:2]} have no asymptotic twin / asymptotic weights {sorted(sb - sa)[:2]} no massive one"
    return False, "same sets of weights"


REPLAYERS["weights"] = replay_weights


def run(chk, only=None):
    stubs._preimport()
    real.PI_CONSISTENT[0] = True
    chk.bounds = {"channels": "heavy CC quark (NonSinglet) and gluon of F2, FL, F3", "orders": "0..1 (the massive CC calculation has no higher order in the tree)",
                  "z, x": "(0,1) symbolic", "Q2": "> 0 symbolic", "L = ln(Q2/m2)": "any real (formal)", "nf": "3 (no nf dependence at these orders)",
                  "limit": "m2 = 0 with ln(1-lambda) := -L kept formal; continuity at lambda = 1 of everything else"}
    chk.stub("spence/li2 -> Li2 atoms with special values Li2(0)=0, Li2(1)=zeta2 and congruence", "log -> atoms with congruence/monotonicity facts")
    chk.assume("floats are read as exact rationals, q pi^k values pi-consistently; a residual of pure constant noise is forgiven up to 1e-9 (second query)",
               "NUMBA_DISABLE_JIT=1: Python semantics of the kernels",
               "NOT claimed: neutral-current heavy channels (external libraries), intrinsic and 'missing' channels, the rate of the approach, finite Q2/m2")
    n_cells = 0
    for kind in KINDS if chk.first else []:
        for hname, aname in PAIRS:
            for order in (0, 1):
                cname = f"heavy.{kind}_cc.{hname} -> asy.{kind}_cc.{aname}/o{order}"
                n_cells += 1
                with Ctx(chk.seed) as ctx, stubs.cf_stubs():
                    ctx.log_monotone = True

                    def body(kind=kind, hname=hname, aname=aname, order=order):
                        h, a, hr, ar, z, m2 = build(ctx, kind, hname, aname, order)
                        lam_log = (1.0 - S.lift(h.labda)).log()
                        vals = {p: (S.lift(part_value(hr, p, z)), S.lift(part_value(ar, p, z))) for p in ("reg", "sing", "loc")}
                        return h, a, hr, ar, lam_log, m2, vals

                    ex = explore.Explorer(ctx, max_paths=16, timeout_ms=5000)
                    paths = ex.run(body)
                    chk.paths += len(paths)
                    if ex.bound_hit:
                        chk.inconclusive_note(f"{cname}: path bound hit")
                    for i, p in enumerate(paths):
                        ctx.assign = dict(p.assign)
                        if p.kind == "exc":
                            if isinstance(p.value, (real.NotEncodable, real.Concretised)):
                                chk.inconclusive_note(f"{cname}/path{i}: not encodable: {p.value}")
                            else:
                                chk.notes.append(f"{cname}/path{i}: raises {type(p.value).__name__}: {str(p.value)[:80]} (C16)")
                            continue
                        h, a, hr, ar, lam_log, m2, vals = p.value
                        for f in (type(h), type(a)):
                            chk.encode(f)
                        hyp = [m2.t == 0, lam_log.t == (-S.lift(a.L)).t]
                        facts = ctx.facts() + list(p.pc)
                        # the path must survive the limit (vacuity) ...
                        if chk.expect_sat(f"{cname}/path{i}: path reaches m2 = 0", facts + hyp, ctx=None) is None:
                            continue
                        # ... and no value that enters the comparison is divided by a quantity that vanishes there (continuity of everything but the
                        # formal logarithm; quotients that only feed the ARGUMENT of a logarithm, Q2/m2 and (1-lambda z)/(1-lambda), are not part of
                        # the terms: a logarithm is an atom)
                        dens = {}
                        for pv in vals.values():
                            for t in pv:
                                for dnode in denominators(t.t):
                                    dens[dnode.get_id()] = dnode
                        for dnode in dens.values():
                            chk.obligations += 1
                            chk.evaluations += 1
                            v = chk.prover.prove(dnode != 0, facts + hyp, f"{cname}: denominators stay away from 0 in the limit")
                            if v.status == "unsat":
                                chk.discharged += 1
                            else:
                                chk.inconclusive_note(f"{cname}/path{i}: a denominator may vanish at m2 = 0 ({str(dnode)[:80]}): the formal limit is not justified")
                        same_sing = None
                        for part in ("sing", "reg+sing", "loc"):
                            if part == "reg+sing":
                                vh, va = vals["reg"][0] + vals["sing"][0], vals["reg"][1] + vals["sing"][1]
                            else:
                                vh, va = vals[part]
                            chk.obligations += 1
                            chk.evaluations += 1
                            chk.nontrivial.add(f"{cname}/{part}")
                            label = f"{cname}/path{i}/{part}"
                            d = vh.t - va.t
                            v = chk.prover.prove(d == 0, facts + hyp, label + ":exact")
                            if v.status != "unsat":
                                tau = z3.RealVal(TAU)
                                v2 = chk.prover.prove(z3.And(d <= tau, -d <= tau), facts + hyp, label + ":noise")
                                if v2.status != "unsat":
                                    E = 1 + sum(at.var * at.var for at in ctx.atoms.values())
                                    v2 = chk.prover.prove(z3.And(d <= tau * E, -d <= tau * E), facts + hyp, label + ":noise-envelope")
                                v = v2
                            if part == "sing":
                                same_sing = v.status == "unsat"
                                if same_sing:
                                    chk.discharged += 1
                                else:
                                    # a different split of the same distribution between regular and singular part is legitimate: not an obligation
                                    chk.obligations -= 1
                                continue
                            if part == "loc" and not same_sing:
                                chk.inconclusive_note(f"{label}: singular parts are split differently; the local parts cannot be compared pointwise")
                                continue
                            if v.status == "unsat":
                                chk.discharged += 1
                                if len(chk.samples) < 4:
                                    chk.sample({"obligation": label, "hypotheses": ["m2 == 0", "log(1 - lambda) == -L"],
                                                "claim": "massive part == asymptotic part for all z, x, Q2, L", "verdict": "unsat (negation)"})
                                continue
                            if v.status == "unknown":
                                chk.inconclusive_note(f"{label}: solver returned unknown")
                                continue
                            asg = explore.model_to_assign(ctx, v.model)
                            g = lambda n: float(asg.get(n, ctx.assign.get(n, 0.5)))
                            zz = g("z")
                            zz = zz if 0 < zz < 1 else 0.37
                            xx = g("x") if 0 < g("x") < 1 else 0.1
                            chk.report(f"limit:{kind}.{hname}:o{order}:{part}", f"{label}: the massive coefficient function does not tend to its asymptotic counterpart",
                                       "limit", dict(kind=kind, hname=hname, aname=aname, order=order, part=part, z=zz, x=xx, Q2=max(g("Q2"), 1.0)))
    run_weights(chk)
    if not chk.first:
        chk.section("cc_limit", cells=0)
        return chk.finish(explanation="shard of C08 (see the merged evidence)", rule="")
    # vacuity: a perturbed oracle (L -> L + 1 in the link between the formal logarithm and the asymptotic class) must be refuted
    with Ctx(chk.seed) as ctx, stubs.cf_stubs():
        ctx.log_monotone = True
        h, a, hr, ar, z, m2 = build(ctx, "f2", "Gluon", "AsyGluon", 1)
        lam_log = (1.0 - S.lift(h.labda)).log()
        vh, va = S.lift(part_value(hr, "reg", z)), S.lift(part_value(ar, "reg", z))
        chk.expect_sat("perturbed link ln(1-lambda) = -L + 1", ctx.facts() + [m2.t == 0, lam_log.t == (-S.lift(a.L) + 1).t, vh.t != va.t], what="perturbation")
    chk.section("cc_limit", cells=n_cells)
    return chk.finish(
        explanation="The real heavy CC quark and gluon classes of F2, FL, F3 (LO, NLO) run on symbolic z, x, Q2 and a symbolic mass; under the hypotheses "
        "m2 = 0 and log(1-lambda) = -L (the collinear logarithm kept as a free real) z3 proves regular+singular and local parts equal to those of the "
        "asymptotic classes AsyQuark/AsyGluon for all z, x, Q2, L, and that no denominator met on the path vanishes at m2 = 0 (continuity): the massive "
        "minus asymptotic difference tends to zero with all logarithms retained. Candidates are replayed on floats at Q2/m2 = 1e4, 1e6, 1e8.",
        rule="one obligation per (kind, channel, order, path, part) and per denominator; distinct = (kind, channel, order, part); all non-trivial",
    )
