"""C14 -- results do not depend on request history or cache state.

(1) the real StructureFunction.get_esf after a symbolic history of <= 2 earlier requests (symbolic
    kinematic values, BOTH key orders of the kinematics dict, both use_raw flags, TMC on/off): the object
    handed out is the one for the requested point and TMC-ness;
(2) the real Runner.get_result on <= 4 elements with symbolic Q2: every ordering and tie arises as a
    feasible path of `sorted`; output[name][i] is the result of elements[i];
(3) memo transparency of ScaleVariations.compute_raw and heavy.n3lo.interpolator;
(4) ESF.get_result hands out a copy sharing nothing with the cached result;
(5) kernel lists (real Combiner, symbolic Q2, Z, A, electroweak parameters) of later points at the same Q2 built on the run's
    shared configuration objects equal those of a single-point run.
"""

import itertools

import numpy as np
import z3

from yv.engine import explore, harness, npshim, real
from yv.engine.real import S, Ctx
from yv.props import common as cm


def make_sf(tmc_mode, kind="F2"):
    from yadism import observable_name as on
    from yadism.sf import StructureFunction

    cc = cm.make_coupling(cm.ew_params(values={}), "EM", 11)
    cfg = cm.make_configs(cc, TMC=tmc_mode, interpolator=cm.StubInterpolator([1e-3, 0.1, 1.0], [None, None, None]))
    runner = cm.Info(configs=cfg)
    sf = StructureFunction(on.ObservableName(f"{kind}_total"), runner)
    runner.get_sf = lambda name: sf
    return sf


def kin(order, x, Q2):
    return {"x": x, "Q2": Q2} if order == "xQ" else {"Q2": Q2, "x": x}


def history_case(ctx_or_vals, case):
    """history of earlier requests, then the probed request; returns (object, requested x, Q2, want_tmc)."""
    from yadism.esf import tmc as tmcmod

    sf = make_sf(case["tmc"])
    get = (lambda n: ctx_or_vals.var(n, 0, 1, hi_open=False)) if isinstance(ctx_or_vals, Ctx) else (lambda n: ctx_or_vals[n])
    getq = (lambda n: ctx_or_vals.var(n, 0, None, wlo=0.05, whi=1.0)) if isinstance(ctx_or_vals, Ctx) else (lambda n: ctx_or_vals[n])
    for i, (order, raw) in enumerate(case["history"]):
        sf.get_esf(sf.obs_name, kin(order, get(f"hx{i}"), getq(f"hQ{i}")), use_raw=raw)
    x, Q2 = get("x"), getq("Q2")
    order, raw = case["request"]
    kreq = kin(order, x, Q2)
    obj = sf.get_esf(sf.obs_name, kreq, use_raw=raw)
    # the request's own dict (shared with cross-section objects and the caller's card) must come back unchanged
    if list(kreq) != list(kin(order, x, Q2)) or kreq["x"] is not x or kreq["Q2"] is not Q2:
        raise AssertionError(f"get_esf modified the kinematics dict it was given: {kreq}")
    want_tmc = (not raw) and case["tmc"] != 0
    is_tmc = isinstance(obj, tmcmod.EvaluatedStructureFunctionTMC)
    return obj, x, Q2, want_tmc, is_tmc


def replay_history(args):
    case = dict(args["case"])
    case["history"] = [tuple(h) for h in case["history"]]
    case["request"] = tuple(case["request"])
    try:
        obj, x, Q2, want_tmc, is_tmc = history_case(args["values"], case)
    except ValueError as e:
        return False, f"rejected: {e}"
    if obj.x != x or obj.Q2 != Q2 or want_tmc != is_tmc:
        return True, (f"history {case['history']} with {args['values']}: request (x={x}, Q2={Q2}, order {case['request'][0]}) "
                      f"answered with object for (x={obj.x}, Q2={obj.Q2}), TMC object: {is_tmc} (wanted {want_tmc})")
    return False, "the requested point is returned"


def replay_kindict(args):
    case = dict(args["case"])
    case["history"] = [tuple(h) for h in case["history"]]
    case["request"] = tuple(case["request"])
    try:
        history_case(args["values"], case)
    except AssertionError as e:
        return True, str(e)
    except ValueError as e:
        return False, f"rejected: {e}"
    return False, "kinematics dict untouched"


def from_dict_couplings(proj="electron", proc="NC"):
    """the shared object as a run really builds it: CouplingConstants.from_dict on cards (floats)"""
    from yadism.coefficient_functions.coupling_constants import CouplingConstants

    theory = dict(CKM="0.97428 0.22530 0.003470 0.22520 0.97345 0.041000 0.00862 0.04030 0.999152", SIN2TW=0.23126, MZ=91.1876, MW=80.398)
    obs = dict(ProjectileDIS=proj, prDIS=proc, PolarizationDIS=0.7, PropagatorCorrection=0.02, NCPositivityCharge=None)
    return CouplingConstants.from_dict(theory, obs)


def from_dict_history():
    """repeated requests to one from_dict-built object vs a fresh object per request; returns the list of differences"""
    bad = []
    for proj in ("electron", "positron", "neutrino"):
        shared = from_dict_couplings(proj)
        for rep in range(3):
            for q_ in (1, 2, 4):
                for t_ in ("VV", "AA", "VA", "AV"):
                    got = shared.get_weight(q_, 900.0, t_)
                    fresh = from_dict_couplings(proj).get_weight(q_, 900.0, t_)
                    if abs(float(got) - float(fresh)) > 1e-12 * max(1.0, abs(float(fresh))):
                        bad.append((proj, rep, q_, t_, float(got), float(fresh)))
    return bad


def replay_weights_history(args):
    from yadism.coefficient_functions.coupling_constants import CouplingConstants

    if args.get("from_dict"):
        bad = from_dict_history()
        return (True, f"CouplingConstants.from_dict object: answer depends on earlier requests (projectile, repetition, quark, type, shared, fresh): {bad[:3]}") if bad else (False, "history independent")
    P = cm.ew_params(values={})
    shared = cm.make_coupling(P, "CC", 12)
    bad = []
    for q_, mask in args["sequence"]:
        got = shared.get_weight(q_, 10.0, None, cc_mask=mask)
        fresh = cm.make_coupling(P, "CC", 12).get_weight(q_, 10.0, None, cc_mask=mask)
        if abs(got - fresh) > 1e-12:
            bad.append((q_, mask, got, fresh))
    return (True, f"shared CouplingConstants answers depend on earlier requests: {bad[:3]}") if bad else (False, "history independent")


def replay_public_api(args):
    """The same history through run_yadism: two points listed with different key orders."""
    import sys

    import yadism
    import yadism.log

    yadism.log.silent_mode = True
    from yv.props import c06

    V = dict(mc=1.51, mb=4.92, mt=172.5, kc=1.0, kb=1.0, kt=1.0, Q2=10.0)
    t, o = c06.cards(V, "ZM-VFNS", 4, pto=0)
    a, b = args["a"], args["b"]
    o["observables"] = {"F2_total": [{"Q2": a, "x": b}, {"x": a, "Q2": b}]}
    out = yadism.run_yadism(t, o)
    r = out["F2_total"]
    if (r[1].x, r[1].Q2) != (a, b):
        return True, f"second point requested (x={a}, Q2={b}) but the output holds (x={r[1].x}, Q2={r[1].Q2})"
    return False, "both points answered correctly"


# ---- (2) ordering in Runner.get_result ----

class Elem:
    def __init__(self, i, Q2):
        self.i, self.Q2 = i, Q2

    def get_result(self):
        return ("result-of", self.i)


class Obs:
    def __init__(self, elems):
        self.elements = elems

    def __len__(self):
        return len(self.elements)


def ordering_case(n, q2s, extra_obs=False, dup=False):
    import io

    import rich.console
    from yadism.output import Output
    from yadism.runner import Runner

    r = object.__new__(Runner)
    elems = [Elem(i, q2s[i]) for i in range(n)]
    if dup and n >= 2:
        # a point listed twice in the card is ONE object at two positions (the cache hands out the same object)
        elems[-1] = elems[0]
    r.observables = {"F2_total": Obs(elems)}
    if extra_obs:
        r.observables["FL_total"] = Obs([Elem(99, q2s[0])])  # created on demand by TMC/XS: not part of the plan
    r._observables = {"observables": {"F2_total": [None] * n}}
    r.console = rich.console.Console(file=io.StringIO())
    r._output = Output()
    drops = []
    r.drop_cache = lambda: drops.append(1)
    r.replace_nans_with_0 = lambda out: out
    out = r.get_result()
    return out, drops


def replay_ordering(args):
    out, drops = ordering_case(len(args["q2s"]), args["q2s"], args.get("extra", False), args.get("dup", False))
    got = out["F2_total"]
    n = len(args["q2s"])
    want = list(range(n))
    if args.get("dup") and n >= 2:
        want[-1] = 0
    if any(g is None for g in got) or [g[1] for g in got] != want or (args.get("extra") and "FL_total" in out):
        return True, f"Q2 list {args['q2s']}: output order {got}"
    return False, "output[i] is the result of elements[i]"


def replay_memo(args):
    if args.get("what") == "sv_tensors":
        from yv.props import c05

        env = c05.Env(None)
        sv_used = None
        ren_, fact_, which_ = args.get("ren", True), args.get("fact", True), args.get("which", "qg")
        for nf in args["seq"]:
            got, _, _, sv_used = c05.run_real_sv(env, nf, args["pto"], ren_, fact_, which_, sv=sv_used)
        fresh = c05.run_real_sv(env, args["seq"][-1], args["pto"], ren_, fact_, which_)[0]
        if (sv_used.activate_ren, sv_used.activate_fact) != (ren_, fact_):
            return True, f"the shared manager's switches changed to ({sv_used.activate_ren}, {sv_used.activate_fact}) while serving nf={args['seq']} (built with {ren_}, {fact_})"
        bad = [(k, pid, float(got[k][pid]), float(fresh[k][pid])) for k in fresh for pid in fresh[k]
               if abs(float(got.get(k, {}).get(pid, 0)) - float(fresh[k][pid])) > 1e-9 * max(1.0, abs(float(fresh[k][pid])))]
        if bad:
            return True, f"scale-variation tensors for nf={args['seq'][-1]} after serving nf={args['seq'][:-1]}: {bad[:3]} (used manager vs fresh manager)"
        return False, "same tensors"
    if args.get("what") == "ren_coeffs":
        from yadism.esf import scale_variations as svmod

        shared = svmod.ScaleVariations(order=args["order"], interpolator=None, activate_ren=True, activate_fact=True)
        for nf in args["seq"]:
            got = shared.ren_coeffs(nf)
            fresh = svmod.ScaleVariations(order=args["order"], interpolator=None, activate_ren=True, activate_fact=True).ren_coeffs(nf)
            if got != fresh:
                return True, f"after {args['seq']}: ren_coeffs({nf}) = {got}, a fresh manager gives {fresh}"
        return False, "history independent"
    if args.get("what") == "fact_matrices":
        from yadism.esf import scale_variations as svmod

        sv = svmod.ScaleVariations(order=args["order"], interpolator=None, activate_ren=True, activate_fact=True)
        rnd = np.random.default_rng(3)
        for d in sv.raw_labels:
            for l in d:
                sv.operators[(l, args["nf"])] = rnd.normal(size=(2, 2))
        import copy as _copy

        before = _copy.deepcopy(sv.operators)
        f1 = sv.fact_matrices(args["nf"])
        f1 = {k: np.array(v, dtype=float).copy() for k, v in f1.items()}
        f2 = sv.fact_matrices(args["nf"])
        changed = [k for k in before if not np.array_equal(before[k], sv.operators[k])]
        differ = [k for k in f1 if not np.allclose(f1[k], np.array(f2[k], dtype=float), rtol=1e-13, atol=0)]
        if changed or differ:
            return True, f"fact_matrices(nf={args['nf']}) changed memo entries {changed[:3]}; second answer differs for {differ[:3]}"
        return False, "memo untouched, same answer"
    if args.get("what") == "compute_raw":
        # the structural claim (every block convolved from the RSL of its own (label, nf)) is stronger than the property: a correct re-use of an
        # nf-independent block would fail it.  The numbers decide: real convolutions on a small real eko basis, used manager vs fresh managers.
        from eko.interpolation import InterpolatorDispatcher, XGrid
        from yadism.esf import scale_variations as svmod

        interp = InterpolatorDispatcher(XGrid([0.1, 0.4, 1.0], False), 1, mode_N=False)
        shared = svmod.ScaleVariations(order=2, interpolator=interp, activate_ren=True, activate_fact=True)
        for nf in args["seq"]:
            shared.compute_raw(nf)
        bad = []
        for nf in sorted(set(args["seq"])):
            fresh = svmod.ScaleVariations(order=2, interpolator=interp, activate_ren=True, activate_fact=True)
            fresh.compute_raw(nf)
            for (l, n), op in fresh.operators.items():
                got = shared.operators.get((l, n))
                if got is None or not np.allclose(np.asarray(got, dtype=float), np.asarray(op, dtype=float), rtol=1e-7, atol=1e-10):
                    bad.append((l, n))
        if bad:
            return True, f"after compute_raw for nf={args['seq']} the manager holds other building blocks than a fresh manager for {bad[:4]} (real convolutions, 3-node basis)"
        return False, "same building blocks as fresh managers"
    # the other memo checks are concrete and deterministic: the failing observation itself is the replay
    return True, f"memo check '{args.get('what')}' failed on the real code (deterministic concrete run, see c14.py part 3)"


def replay_copy(args):
    cc = cm.make_coupling(cm.ew_params(values={}), "EM", 11)
    cfg = cm.make_configs(cc)
    e = cm.make_esf(cfg, "F2_total", 0.1, 10.0)
    e._computed = True
    e.res.orders[(0, 0, 0, 0)] = (np.ones((14, 5)), np.zeros((14, 5)))
    r1 = e.get_result()
    shares = any(np.shares_memory(a, b) for a, b in zip(r1.orders[(0, 0, 0, 0)], e.res.orders[(0, 0, 0, 0)])) or r1.orders is e.res.orders
    r1.orders[(0, 0, 0, 0)][0][:] = 7.0
    r1.orders[(9, 9, 9, 9)] = None
    r2 = e.get_result()
    ok = not shares and np.all(r2.orders[(0, 0, 0, 0)][0] == 1.0) and (9, 9, 9, 9) not in r2.orders and r2 is not r1
    return (not ok), ("a caller's mutation of one result shows up in the next get_result()" if not ok else "private copy")


def shared_cells(tier):
    """configuration cells of the kernel-list re-entry clause (section 'shared')"""
    out = []
    q = tier == "quick"
    for kind, flav, proc, (sch, nf, zm), pto in itertools.product(
            ["F2", "FL", "F3"], ["light", "total"], ["EM", "NC", "CC"],
            [("ZM-VFNS", 4, (1, 1, 1)), ("FFNS", 3, (0, 0, 0)), ("FFN0", 3, (0, 0, 0))], [0, 2, 3]):
        if proc == "EM" and kind == "F3":
            continue
        if pto == 3 and proc == "CC":
            continue
        if q and not ((kind == "F2" and proc == "NC" and flav == "light") or (kind == "F3" and proc == "CC" and pto == 0 and sch == "ZM-VFNS")
                      or (kind == "FL" and proc == "EM" and flav == "total" and pto == 2 and sch == "FFNS")):
            continue
        out.append(dict(obs=f"{kind}_{flav}", process=proc, pid=11, scheme=sch, nf=nf, ZMq=tuple(bool(z) for z in zm), pto=pto))
    return out


def shared_pairs(cell, P, Q2, Z, A):
    """Kernel lists of a second and third point (other x, SAME Q2) built on the run's shared objects (one coupling-constants object, one
    configuration, one target) vs the list of a run that has only this point: [(label, shared-run weight, single-point-run weight)]."""
    import yadism.coefficient_functions as cf

    def build(target=None):
        cc = cm.make_coupling(P, cell["process"], cell["pid"])
        return cm.make_configs(cc, pto=cell["pto"], pto_evol=min(cell["pto"], 2), scheme=cell["scheme"], nf_ff=cell["nf"], ZMq=cell["ZMq"],
                               m2hq=cm.M2HQ, threshold=cell["nf"], target=target if target is not None else {"Z": Z, "A": A})

    def form(cfg, x):
        return cm.linear_form(cf.Combiner(cm.make_esf(cfg, cell["obs"], x, Q2)).collect_elems())

    # an EARLIER run of the process was made for another target with the very dict object the caller then edited in place and handed to this run
    # (cards are plain dicts; the upgrade layer copies them shallowly): what a run does is a function of the values it is given, not of identities
    tdict = {"Z": A - Z, "A": A}
    form(build(tdict), 0.2)
    tdict["Z"] = Z
    shared = build(tdict)
    runs = [form(shared, x) for x in (0.1, 0.3, 0.1)]
    out = []
    for i, x in ((1, 0.3), (2, 0.1)):
        alone = form(build(), x)
        for key in sorted(set(runs[i]) | set(alone), key=str):
            out.append((f"point{i}:{key[0][0]}[{key[1]}]", runs[i].get(key, 0), alone.get(key, 0)))
    return out


def replay_shared(args):
    cell = dict(args["cell"])
    cell["ZMq"] = tuple(cell["ZMq"])
    with cm.fixed_nf():
        prs = shared_pairs(cell, cm.ew_params(values=args["params"]), args["params"]["Q2"], args["params"]["Z"], args["params"]["A"])
    bad = harness.float_pairs_differ(prs, args.get("label"))
    return (True, f"{cell}: weights of a later point at the same Q2 differ from the single-point run: {bad[:3]}") if bad else (False, "holds")


def float_pairs_shared(args):
    cell = dict(args["cell"])
    cell["ZMq"] = tuple(cell["ZMq"])
    with cm.fixed_nf():
        return shared_pairs(cell, cm.ew_params(values=args["params"]), args["params"]["Q2"], args["params"]["Z"], args["params"]["A"])


REPLAYERS = {"shared": replay_shared, "shared:pairs": float_pairs_shared, "kindict": replay_kindict, "weights": replay_weights_history, "history": replay_history, "ordering": replay_ordering, "public": replay_public_api, "copy": replay_copy, "memo": replay_memo}


def run(chk, only=None):
    from yadism import sf as sfmod
    from yadism.coefficient_functions.heavy import n3lo
    from yadism.esf import esf as esfmod
    from yadism.esf import scale_variations as svmod
    from yadism.runner import Runner

    chk.encode(sfmod.StructureFunction.get_esf, sfmod.StructureFunction.load, sfmod.StructureFunction.drop_cache, Runner.get_result,
               Runner.drop_cache, Runner.get_sf, svmod.ScaleVariations.compute_raw, n3lo.interpolator,
               esfmod.EvaluatedStructureFunction.get_result)
    chk.bounds = {"history": "<= 2 earlier requests, symbolic kinematic values, both dict key orders, both use_raw flags, TMC modes {0,1}",
                  "get_result": "<= 4 elements with symbolic Q2 (all orderings and ties as solver-feasible paths)",
                  "memo": "compute_raw over nf sequences of length 3; interpolator over its finite argument lattice"}
    chk.stub("ESF/TMC objects are the real classes (constructors only)", "console/progress -> in-memory", "convolve_operator -> formal values",
             "np.load / RectBivariateSpline -> recorders")
    chk.assume("bit-for-bit float equality is outside (reals); summation order is fixed by the kernel list, which C07's harness shows "
               "independent of other requests")
    q = chk.tier == "quick"
    # ---- (1) cache step ----
    if only in (None, "cache"):
        orders = ["xQ", "Qx"]
        cases = []
        for tmc in (0, 1):
            for hist_len in (0, 1, 2):
                for hist in itertools.product(itertools.product(orders, [True, False]), repeat=hist_len):
                    for req in itertools.product(orders, [True, False]):
                        if q and hist_len == 2 and (hash((hist, req, tmc)) % 4):
                            continue
                        cases.append(dict(tmc=tmc, history=list(hist), request=req))
        for case in cases:
            cname = f"cache:TMC={case['tmc']}:history={case['history']}:request={case['request']}"
            with Ctx(chk.seed) as ctx:
                ex = explore.Explorer(ctx, max_paths=96, timeout_ms=3000)
                paths = ex.run(lambda: history_case(ctx, case))
                chk.paths += len(paths)
                if ex.bound_hit:
                    chk.inconclusive_note(f"{cname}: path bound hit")
                for i, p in enumerate(paths):
                    ctx.assign = dict(p.assign)
                    if p.kind == "exc":
                        if isinstance(p.value, ValueError):
                            continue  # kinematic rejection (C16)
                        if isinstance(p.value, AssertionError):
                            chk.obligations += 1
                            names = ["x", "Q2"] + [f"h{c}{i}" for i in range(len(case["history"])) for c in "xQ"]
                            chk.report("cache:kinematics-dict-modified", f"{cname}: {p.value}", "kindict",
                                       dict(case=case, values={n: float(p.assign.get(n, 0.5)) for n in names}))
                            continue
                        chk.inconclusive_note(f"{cname}/path{i}: raises {type(p.value).__name__}: {str(p.value)[:100]}")
                        continue
                    obj, x, Q2, want_tmc, is_tmc = p.value

                    def rp(model, ctx=ctx, case=case):
                        asg = explore.model_to_assign(ctx, model)
                        names = ["x", "Q2"] + [f"h{c}{i}" for i in range(len(case["history"])) for c in "xQ"]
                        return "history", dict(case=case, values={n: float(asg.get(n, ctx.assign.get(n, 0.5))) for n in names})

                    chk.prove(f"{cname}/path{i}: returned object is for the requested point",
                              z3.And(S.lift(obj.x).t == x.t, S.lift(obj.Q2).t == Q2.t), ctx.facts() + p.pc,
                              key=f"cache:keyorder:{case['request'][0]}:{'/'.join(h[0] for h in case['history'])}", replay=rp,
                              what=f"{cname}: a cache hit hands out the object of another kinematic point")
                    chk.obligations += 1
                    if want_tmc == is_tmc:
                        chk.discharged += 1
                    else:
                        chk.report(f"cache:tmcness:{case['request']}", f"{cname}: TMC-ness of the returned object is wrong", "history", rp(None)[1])
        chk.section("cache", cases=len(cases))
    # ---- (2) ordering ----
    if only in (None, "ordering"):
        for n, extra, dup in [(n_, e_, False) for n_, e_ in itertools.product((1, 2, 3, 4) if not q else (1, 2, 3), (False, True))] + [(2, False, True), (3, False, True)]:
            with Ctx(chk.seed) as ctx:
                def body(n=n, extra=extra, dup=dup):
                    q2s = [ctx.var(f"Q2_{i}", 0, None, wlo=1, whi=5) for i in range(n)]
                    if dup:
                        q2s[-1] = q2s[0]
                    return ordering_case(n, q2s, extra, dup)

                ex = explore.Explorer(ctx, max_paths=2048, timeout_ms=3000)
                paths = ex.run(body)
                chk.paths += len(paths)
                if ex.bound_hit:
                    chk.inconclusive_note(f"ordering n={n}: path bound hit")
                for i, p in enumerate(paths):
                    chk.obligations += 1
                    chk.evaluations += 1
                    chk.nontrivial.add(f"ordering:{n}:{extra}")
                    if p.kind == "exc":
                        chk.report(f"ordering:raise:{n}", f"get_result raises {type(p.value).__name__}: {str(p.value)[:100]}", "ordering",
                                   dict(q2s=[float(p.assign.get(f"Q2_{0 if (dup and k == n - 1) else k}", 1.0)) for k in range(n)], extra=extra, dup=dup))
                        continue
                    out, drops = p.value
                    got = out.get("F2_total")
                    want = list(range(n))
                    if dup:
                        want[-1] = 0
                    ok = got is not None and all(g is not None for g in got) and [g[1] for g in got] == want and ("FL_total" not in out)
                    if ok:
                        chk.discharged += 1
                    else:
                        chk.report(f"ordering:{n}", f"n={n}{', one point listed twice' if dup else ''}: output[name][i] is not the result of elements[i] on a feasible ordering", "ordering",
                                   dict(q2s=[float(p.assign.get(f"Q2_{0 if (dup and k == n - 1) else k}", 1.0)) for k in range(n)], extra=extra, dup=dup))
                chk.section("ordering", **{f"n={n},extra={extra},dup={dup}": len(paths)})
    # ---- (3) memo transparency ----
    if only in (None, "memo"):
        from yadism.coefficient_functions import splitting_functions as split

        for seq in itertools.permutations([3, 4, 5], 3) if not q else [(3, 4, 3), (4, 3, 4), (5, 3, 5)]:
            calls = []

            class Tok:
                """formal operator: remembers the RSL it was convolved from; any arithmetic on it yields a DERIVED token (an operator that
                was not obtained by convolving the RSL of its own (label, nf))"""

                def __init__(self, rid, derived=False):
                    self.rid, self.derived = rid, derived

                def _d(self, *_a):
                    return Tok(self.rid, True)

                __mul__ = __rmul__ = __truediv__ = __add__ = __radd__ = __sub__ = __rsub__ = __neg__ = _d

                def __getitem__(self, i):
                    return ("formal", self.rid if not self.derived else None)[i]

            def fake_convolve_operator(rsl, interpolator):
                calls.append(rsl)
                return Tok(id(rsl)), None

            made = {}
            orig_labels = split.raw_labels

            def tracking(lab, fn):
                def mk(nf):
                    tok = ("rsl", lab, nf, len(made))
                    made[id(tok)] = tok
                    made[(lab, nf)] = made.get((lab, nf), 0) + 1
                    return tok
                return mk

            with npshim.patched((svmod, "convolve_operator", fake_convolve_operator)):
                sv = svmod.ScaleVariations(order=2, interpolator=None, activate_ren=True, activate_fact=True)
                sv.raw_labels = [{l: tracking(l, f) for l, f in d.items()} for d in orig_labels[:2]]
                snap = {}
                okm = True
                for nf in seq + seq:
                    try:
                        sv.compute_raw(nf)
                    except Exception:  # noqa  -- arithmetic on memo entries the formal tokens do not support: not the documented memo
                        okm = False
                        break
                    for d in sv.raw_labels:
                        for l in d:
                            v = sv.operators.get((l, nf))
                            if v is None:
                                okm = False
                            if (l, nf) in snap and snap[(l, nf)] is not v:
                                okm = False  # an earlier result was replaced
                            snap[(l, nf)] = v
                # every (label, nf) built exactly once, with its own nf
                once = all(made.get((l, nf), 0) == 1 for d in sv.raw_labels for l in d for nf in set(seq))
                right = okm and all(c[1] in [l for d in sv.raw_labels for l in d] for c in calls) and all(
                    sv.operators[(c[1], c[2])][1] == id(c) for c in calls)
            chk.obligations += 1
            chk.evaluations += 1
            if okm and once and right:
                chk.discharged += 1
            else:
                # decided by the numbers (see replay_memo): equal building blocks -> the deviation from the structural claim is a legitimate re-use
                if chk._try_replay(replay_memo, dict(what="compute_raw", seq=list(seq))):
                    chk.report(f"memo:compute_raw:{seq}", f"compute_raw memo is not transparent for the nf sequence {seq}", "memo", dict(what="compute_raw", seq=list(seq)))
                else:
                    chk.discharged += 1
                    chk.notes.append(f"compute_raw{seq}: blocks are not all convolved from their own RSL, but equal those of fresh managers (real convolutions)")
        # consumers of the memo must not modify it: fact_matrices twice on the same manager (symbolic 2x2 operators)
        for nf, order in itertools.product((3, 4, 6) if q else (3, 4, 5, 6), (1, 2)):
            with Ctx(chk.seed) as ctx:
                sv = svmod.ScaleVariations(order=order, interpolator=None, activate_ren=True, activate_fact=True)
                for d in sv.raw_labels:
                    for l in d:
                        m = np.empty((2, 2), dtype=object)
                        for a, b in itertools.product(range(2), range(2)):
                            m[a, b] = ctx.var(f"{l}[{a},{b}]", None, None)
                        sv.operators[(l, nf)] = m
                before = {k: [[e.t.get_id() for e in row] for row in v] for k, v in sv.operators.items()}
                f1 = sv.fact_matrices(nf)
                mid = {k: [[S.lift(e).t.get_id() for e in row] for row in v] for k, v in sv.operators.items()}
                f2 = sv.fact_matrices(nf)
                after = {k: [[S.lift(e).t.get_id() for e in row] for row in v] for k, v in sv.operators.items()}
                same_out = set(f1) == set(f2)
                diffs = []
                if same_out:
                    for k in f1:
                        for e1, e2 in zip(np.asarray(f1[k], dtype=object).ravel(), np.asarray(f2[k], dtype=object).ravel()):
                            diffs.append(S.lift(e1).t != S.lift(e2).t)
                chk.obligations += 1
                chk.evaluations += 1
                chk.nontrivial.add(f"memo:fact_matrices:{nf}:{order}")
                okf = before == mid == after and same_out
                if okf and diffs:
                    v = chk.prover.check(ctx.facts() + [z3.Or(*diffs)], f"fact_matrices twice nf={nf} order={order}")
                    okf = v.status == "unsat"
                if okf:
                    chk.discharged += 1
                else:
                    chk.report(f"memo:fact_matrices:mutates", f"ScaleVariations.fact_matrices(nf={nf}) modifies the operator memo / answers differently "
                               f"the second time (order {order})", "memo", dict(what="fact_matrices", nf=nf, order=order))
        # the CouplingConstants object is shared by every observable and point of a run: its answers must not depend on what was asked before
        seqs = [[(q_, m_) for m_ in ("dus", "c", "duscbt", "b", "t") for q_ in (1, 2, 4, 5)], [(q_, m_) for m_ in ("duscbt", "t", "c", "dus") for q_ in (5, 4, 2, 1)]]
        for si, seq in enumerate(seqs):
            with Ctx(chk.seed) as ctx:
                P = cm.ew_params(ctx)
                Q2 = ctx.var("Q2", 0, None, wlo=1, whi=100)
                shared = cm.make_coupling(P, "CC", 12)
                sharednc = cm.make_coupling(P, "NC", 11)
                diffs = []
                for q_, mask in seq:
                    got = shared.get_weight(q_, Q2, None, cc_mask=mask)
                    fresh = cm.make_coupling(P, "CC", 12).get_weight(q_, Q2, None, cc_mask=mask)
                    diffs.append(S.lift(got).t != S.lift(fresh).t)
                    for t_ in ("VV", "AA", "VA"):
                        g2 = sharednc.get_weight(q_, Q2, t_)
                        f2 = cm.make_coupling(P, "NC", 11).get_weight(q_, Q2, t_)
                        diffs.append(S.lift(g2).t != S.lift(f2).t)
                chk.obligations += 1
                chk.evaluations += 1
                chk.nontrivial.add(f"memo:weights:{si}")
                v = chk.prover.check(ctx.facts() + [z3.Or(*diffs)], f"shared CouplingConstants, sequence {si}")
                if v.status == "unsat":
                    chk.discharged += 1
                elif v.status == "unknown":
                    chk.inconclusive_note("shared CouplingConstants: solver unknown")
                else:
                    chk.report("memo:couplings:history", "CouplingConstants.get_weight depends on the requests made before (shared by all observables of a run)",
                               "weights", dict(sequence=[list(x_) for x_ in seq]))
        # the same for the object as a run really builds it (from_dict on float cards, polarised beams): deterministic concrete run
        chk.obligations += 1
        chk.evaluations += 1
        try:
            badfd = from_dict_history()
        except Exception as e:  # noqa
            badfd = [("raises", repr(e))]
        if badfd:
            chk.report("memo:couplings:from_dict", f"CouplingConstants built by from_dict: get_weight depends on the requests made before: {badfd[:2]}",
                       "weights", dict(from_dict=True))
        else:
            chk.discharged += 1
        # answers of the shared scale-variation manager depend on nf only, not on what was asked before (one manager serves
        # every kinematic point of a run, i.e. every nf region of a ZM-VFNS run)
        for order in (2, 3):
            for seq in ([3, 4, 3, 5, 6, 4] if q else [3, 4, 3, 5, 6, 4, 6, 3, 5]), [6, 5, 4, 3, 4, 5]:
                shared = svmod.ScaleVariations(order=order, interpolator=None, activate_ren=True, activate_fact=True)
                okr = True
                for nf in seq:
                    got = shared.ren_coeffs(nf)
                    fresh = svmod.ScaleVariations(order=order, interpolator=None, activate_ren=True, activate_fact=True).ren_coeffs(nf)
                    b0 = 11.0 - 2.0 * nf / 3.0
                    if got != fresh or (order >= 2 and abs(got.get((2, 1, 1), 0) - b0) > 1e-12):
                        okr = False
                chk.obligations += 1
                chk.evaluations += 1
                chk.nontrivial.add(f"memo:ren_coeffs:{order}:{seq[0]}")
                if okr:
                    chk.discharged += 1
                else:
                    chk.report("memo:ren_coeffs:history", f"ScaleVariations.ren_coeffs depends on the nf values asked before (order {order}, sequence {seq})",
                               "memo", dict(what="ren_coeffs", order=order, seq=seq))
        # the scale-variation tensors a compute_local emits for a given nf are the same whether the manager is fresh or has
        # served other nf regions before (any memo inside apply_common/apply_diff_scale_variations must be keyed by nf)
        from yv.props import c05

        for (pto, seq), (ren_, fact_, which_) in itertools.product(
                ((2, (3, 4)), (2, (5, 4)), (3, (4, 5, 4)), (1, (4, 5))) if q else ((2, (3, 4)), (2, (5, 4)), (3, (4, 5, 4)), (1, (4, 5)), (3, (3, 6)), (2, (6, 3, 4))),
                ((True, True, "qg"), (True, False, "qgi"), (False, True, "qgi"))):
            with Ctx(chk.seed) as ctx:
                env = c05.Env(ctx)
                try:
                    sv_used = None
                    for nf in seq:
                        got, _, _, sv_used = c05.run_real_sv(env, nf, pto, ren_, fact_, which_, sv=sv_used)
                    fresh = c05.run_real_sv(env, seq[-1], pto, ren_, fact_, which_)[0]
                    # the user's switches are part of the manager's configuration, not of its state
                    chk.obligations += 1
                    if (sv_used.activate_ren, sv_used.activate_fact) == (ren_, fact_):
                        chk.discharged += 1
                    else:
                        chk.report("memo:sv_switches", f"after serving nf={seq} the shared scale-variation manager has RenScaleVar={sv_used.activate_ren}, "
                                   f"FactScaleVar={sv_used.activate_fact}; it was built with {ren_}, {fact_}", "memo",
                                   dict(what="sv_tensors", pto=pto, seq=list(seq), ren=ren_, fact=fact_, which=which_, label="switches"))
                except Exception as e:  # noqa
                    chk.inconclusive_note(f"sv history {seq}: harness exception {e!r}")
                    continue
                prs = []
                for key in sorted(set(got) | set(fresh)):
                    for pid in sorted(set(got.get(key, {})) | set(fresh.get(key, {}))):
                        prs.append((f"order{key}[{pid}]", got.get(key, {}).get(pid, 0), fresh.get(key, {}).get(pid, 0)))

                def rp_for(lab, pto=pto, seq=seq, ren_=ren_, fact_=fact_, which_=which_):
                    return lambda model: ("memo", dict(what="sv_tensors", pto=pto, seq=list(seq), ren=ren_, fact=fact_, which=which_, label=lab))

                harness.prove_pairs(chk, f"memo:sv-tensors:pto{pto}:nf{seq}:ren={ren_}:fact={fact_}:{which_}", prs, ctx.facts(), rp_for, lambda lab: "memo:sv_tensors:history",
                                    sample={"sequence": list(seq), "pto": pto, "entries": len(prs)})
        # interpolator memo: distinct arguments -> distinct grids, same arguments -> same object
        loads = []

        class FakeSpline:
            def __init__(self, xi, eta, coeff):
                self.coeff = coeff

        def fake_load(path):
            loads.append(str(path))
            return ("grid", str(path))

        saved = dict(n3lo.interpolators)
        n3lo.interpolators.clear()
        try:
            fake_np = npshim.NPShim(load=fake_load)
            with npshim.patched((n3lo, "np", fake_np), (n3lo, "RectBivariateSpline", FakeSpline)):
                objs = {}
                okI = True
                lattice = list(itertools.product(["C2g", "C2q", "CLg", "CLq"], [3, 4, 5], [-1, 0, 1]))
                for rnd in range(2):
                    for key in (lattice if rnd == 0 else reversed(lattice)):
                        o = n3lo.interpolator(key[0], nf=key[1], variation=key[2])
                        want = f"{key[0]}_nf{key[1]}_var{key[2]}.npy"
                        if not o.coeff[1].endswith(want):
                            okI = False
                        if key in objs and objs[key] is not o:
                            okI = False
                        objs[key] = o
                if len(loads) != len(lattice) or len({id(o) for o in objs.values()}) != len(lattice):
                    okI = False
        finally:
            n3lo.interpolators.clear()
            n3lo.interpolators.update(saved)
        chk.obligations += 1
        chk.evaluations += 1
        if okI:
            chk.discharged += 1
        else:
            chk.report("memo:interpolator", "heavy.n3lo.interpolator memo returns a grid that does not belong to its arguments", "memo", dict(what="interpolator"))
    # ---- (4) get_result hands out a private copy ----
    if only in (None, "copy"):
        chk.obligations += 1
        chk.evaluations += 1
        bad, detail = replay_copy({})
        if not bad:
            chk.discharged += 1
        else:
            chk.report("copy:get_result", "ESF.get_result hands out (part of) its cached result: a caller can corrupt later requests", "copy", {})
    # ---- (5) kernel lists on the run's shared objects: a later point at the same Q2 gets the weights of a single-point run ----
    if only in (None, "shared"):
        from yv.engine import stubs

        allc = shared_cells(chk.tier)
        for cell in allc:
            cname = "shared:" + ":".join(f"{k}={v}" for k, v in cell.items())
            if not chk.mine(cname):
                continue
            with Ctx(chk.seed) as ctx, cm.fixed_nf(), cm.generic_drop_empty(), stubs.cf_stubs():

                def body(cell=cell):
                    P = cm.ew_params(ctx)
                    Q2 = ctx.var("Q2", 0, None, wlo=1, whi=20000)
                    Z = ctx.var("Z", None, None, wlo=0.1, whi=100)
                    A = ctx.var("A", None, None, wlo=101, whi=250)
                    return shared_pairs(cell, P, Q2, Z, A)

                ctx.var("A", None, None)
                ctx.domain.append(ctx.vars["A"][0] != 0)
                paths = explore.Explorer(ctx, max_paths=16, timeout_ms=3000).run(body)
                chk.paths += len(paths)
                if paths and not any(p.kind == "ok" for p in paths) and not all(isinstance(p.value, (ValueError, NotImplementedError)) for p in paths):
                    chk.inconclusive_note(f"{cname}: vacuity -- every path raised ({type(paths[0].value).__name__}: {str(paths[0].value)[:80]})")
                for p in paths:
                    ctx.assign = dict(p.assign)
                    if p.kind == "exc":
                        chk.notes.append(f"{cname}: raises {type(p.value).__name__}: {str(p.value)[:80]} (C16)")
                        continue

                    def rp_for(lab, ctx=ctx, cell=cell):
                        def rp(model):
                            asg = explore.model_to_assign(ctx, model)
                            params = {k: float(asg.get(k, ctx.assign.get(k, 1))) for k in cm.EW_PARAMS + ["Q2", "Z", "A"]}
                            return "shared", dict(cell=cell, params=params, label=lab)
                        return rp

                    harness.prove_pairs(chk, cname, p.value, ctx.facts() + p.pc + p.generic, rp_for,
                                        lambda lab, cell=cell: f"shared:{cell['obs']}:{cell['process']}:{cell['scheme']}:{cell['pto']}:{lab}")
        chk.section("shared_cells", n=len(allc))
    return chk.finish(
        explanation="(1) The real StructureFunction.get_esf runs after a symbolic history of up to two earlier requests (symbolic values, "
        "both key orders of the kinematics dict, both use_raw flags, TMC on/off); tuple-key equality inside the dict lookup becomes a "
        "solver decision, all hit/miss paths are explored and z3 proves that the returned object carries the requested x and Q2 and has "
        "the requested TMC-ness. (2) The real Runner.get_result runs on up to four elements with symbolic Q2: every ordering and tie is a "
        "feasible path of sorted(); output[name][i] must be the result of elements[i] and unplanned observables must not appear. "
        "(3) compute_raw/interpolator memos are transparent. (4) get_result returns a private deep copy. (5) The real Combiner builds the kernel "
        "lists of three points (two x values, the same symbolic Q2) on ONE configuration / coupling-constants / target object (symbolic Z, A), "
        "as a run does; z3 proves every weight of the later points equal to the weight of a run that has only that point.",
        rule="one obligation per (history case, path) / (n, path) / memo sequence; distinct = case; non-trivial = symbolic keys or orderings",
    )
