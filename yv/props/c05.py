"""C05 -- scale-variation terms satisfy the renormalisation-group equations.

Mellin-scalar operator model: the memo ScaleVariations.operators[(label, nf)] is pre-populated with 1x1
symbolic matrices (the N-th moment of each splitting kernel; composite labels are the products they
name), so the real compute_raw skips the quadrature; the real ESF.compute_local (SV part, intrinsic
filter), ScaleVariations.*, splitting_functions.sector_mapping and eko's projectors then run on
symbolic central coefficients and parton weights.  The emitted tensors C[(k,l,i,j)] are differentiated
by hand with an independent flavour-basis DGLAP + beta-function oracle and z3 proves that every
monomial of dF/dln muF^2 (a_s power <= min(pto,2)) and dF/dln muR^2 (a_s power <= pto) vanishes.
"""

import itertools
import random

import numpy as np
import z3

from yv.engine import explore, harness, npshim, real
from yv.engine.real import S, Ctx
from yv.props import common as cm

ELEMENTARY = ["P_qq_0", "P_qg_0", "P_gq_0", "P_gg_0", "P_qq_1", "P_qg_1", "P_nsp_1", "P_nsm_1"]
COMPOSITE = {"P_qq_0^2": ("P_qq_0", "P_qq_0"), "P_qg_0P_gq_0": ("P_qg_0", "P_gq_0"), "P_qq_0P_qg_0": ("P_qq_0", "P_qg_0"),
             "P_qg_0P_gg_0": ("P_qg_0", "P_gg_0")}


class Env:
    def __init__(self, ctx=None, values=None, seed=0):
        self.ctx, self.values, self.rnd = ctx, values or {}, random.Random(seed)
        self.names = []

    def var(self, name):
        if name not in self.names:
            self.names.append(name)
        if self.ctx is not None:
            return self.ctx.var(name, None, None, wlo=-2, whi=2)
        if name not in self.values:
            self.values[name] = random.Random(hash(name)).uniform(-2, 2)
        return self.values[name]


class Token:
    def __init__(self, name):
        self.name = name


class CoeffStub(dict):
    """PartonicChannel look-alike: order -> callable returning a token (or None)."""

    def __init__(self, name, orders):
        super().__init__()
        for o in range(4):
            self[o] = (lambda o=o: Token(f"{name}|{o}")) if o in orders else (lambda: None)

    def convolution_point(self):
        return 1


def make_kernel_classes():
    # Kernel.channel classifies by the class name of the coefficient object
    class NonSingletStub(CoeffStub):
        pass

    class GluonStub(CoeffStub):
        pass

    class IntrinsicStub(CoeffStub):
        pass

    return NonSingletStub, GluonStub, IntrinsicStub


def run_real_sv(env, nf, pto, ren, fact, which, sv=None):
    """Real compute_local on synthetic kernels; returns ({(k,i,j): {pid: value}}, spec of the central input).
    sv: an already used ScaleVariations manager to serve this request (C14: one manager serves all points of a run)."""
    import yadism.coefficient_functions as cf
    from eko import basis_rotation as br
    from yadism.coefficient_functions import splitting_functions as split
    from yadism.coefficient_functions.kernels import Kernel
    from yadism.esf import conv, esf as esfmod
    from yadism.esf import scale_variations as svmod

    NonSingletStub, GluonStub, IntrinsicStub = make_kernel_classes()
    if sv is None:
        sv = svmod.ScaleVariations(order=pto, interpolator=None, activate_ren=ren, activate_fact=fact)
    P = {lab: env.var(lab) for lab in ELEMENTARY}
    for order_labels in sv.raw_labels:
        for lab in order_labels:
            if lab in P:
                val = P[lab]
            else:
                a, b = COMPOSITE[lab]
                val = P[a] * P[b]
            m = np.empty((1, 1), dtype=object)
            m[0, 0] = val
            sv.operators[(lab, nf)] = m
    quarks = [p for q in range(1, nf + 1) for p in (q, -q)]
    kernels_list, central = [], []
    if "q" in which:
        w = {p: env.var(f"wq[{p}]") for p in quarks}
        kernels_list.append(Kernel(dict(w), NonSingletStub("q", range(0, pto + 1))))
        central.append(("q", w, range(0, pto + 1), False))
    if "g" in which:
        w = {21: env.var("wg")}
        kernels_list.append(Kernel(dict(w), GluonStub("g", range(1, pto + 1))))
        central.append(("g", w, range(1, pto + 1), False))
    if "i" in which:
        hq = min(nf + 1, 6)
        w = {hq: env.var("wi+"), -hq: env.var("wi-")}
        kernels_list.append(Kernel(dict(w), IntrinsicStub("i", range(0, min(pto, 1) + 1))))
        central.append(("i", w, range(0, min(pto, 1) + 1), True))

    class FakeCombiner:
        def __init__(self, esf_):
            self.nf = nf

        def collect_elems(self):
            return kernels_list

    class FakeCF:
        Combiner = FakeCombiner

    def fake_convolve_vector(token, interpolator, chi):
        return np.array([env.var(f"c[{token.name}]")], dtype=object), np.array([0.0], dtype=object)

    class ZerosShim(npshim.NPShim):
        @staticmethod
        def zeros(shape, dtype=None, **kw):
            a = np.empty(shape, dtype=object)
            a.fill(0)
            return a

        @staticmethod
        def abs(v):
            return v  # error tensors are not part of this property

    interp = cm.StubInterpolator([0.1], [None])
    cc = cm.make_coupling(cm.ew_params(values={}), "EM", 11)
    cfg = cm.make_configs(cc, pto=pto, interpolator=interp, sv_manager=sv, threshold=nf)
    e = cm.make_esf(cfg, "F2_total", 0.5, 10.0)
    fake_conv = type("FakeConv", (), {"convolve_vector": staticmethod(fake_convolve_vector)})

    class CleanBR:
        """eko.basis_rotation with ad_projectors' float noise removed: every entry is read as the nearest rational
        with denominator <= 10^4 (checked to be within 1e-12), so an entry that is 1e-17 instead of 0 stays 0."""

        def __getattr__(self, n):
            return getattr(br, n)

        @staticmethod
        def ad_projectors(nf_, qed):
            import fractions

            a = br.ad_projectors(nf_, qed)
            flat = a.ravel().copy()
            for idx, v in enumerate(flat):
                fr = fractions.Fraction(float(v)).limit_denominator(10000)
                if abs(float(fr) - float(v)) > 1e-12:
                    raise real.NotEncodable(f"projector entry {v} is not a simple rational")
                flat[idx] = float(fr)
            return flat.reshape(a.shape)

    with npshim.patched((esfmod, "cf", FakeCF), (esfmod, "conv", fake_conv), (esfmod, "np", ZerosShim()), (svmod, "br", CleanBR())):
        e.compute_local()
    pids = list(br.flavor_basis_pids)
    out = {}
    for (k, l, i, j), (val, _err) in e.res.orders.items():
        assert l == 0
        out[(k, i, j)] = {pid: val[ip, 0] for ip, pid in enumerate(pids)}
    cen = []
    for name, w, orders, intrinsic in central:
        cen.append(dict(name=name, w=w, c={o: env.var(f"c[{name}|{o}]") for o in orders}, intrinsic=intrinsic))
    return out, cen, P, sv


# ---------------------------------------------------------------------------------------------
# oracle: flavour-basis DGLAP (Ellis-Stirling-Webber 4.3) and the beta function, by hand
# ---------------------------------------------------------------------------------------------


def beta0(nf):
    return real.Fr(11) - real.Fr(2 * nf, 3)


def beta1(nf):
    return real.Fr(102) - real.Fr(38 * nf, 3)


def apply_P0(C, P, nf):
    """row vector C (pid -> coeff) times the LO splitting matrix in flavour space."""
    out = {}
    quarks = [p for q in range(1, nf + 1) for p in (q, -q)]
    cg = C.get(21, 0)
    for p in quarks:
        out[p] = C.get(p, 0) * P["P_qq_0"] + cg * P["P_gq_0"]
    tot = 0
    for p in quarks:
        tot = tot + C.get(p, 0)
    out[21] = tot * P["P_qg_0"] / (2 * nf) + cg * P["P_gg_0"]
    return out


def apply_P1(C, P, nf):
    """NLO: P_{qi qk} = d_ik PV + PS, P_{qi qbar_k} = d_ik PVb + PS, P_{qi g} = P_qg_1/(2nf);
    P_ns+- = PV +- PVb, singlet P_qq_1 = P_ns+ + 2 nf PS.  Gluon rows are not available: C_g must be 0."""
    PV = (P["P_nsp_1"] + P["P_nsm_1"]) / 2
    PVb = (P["P_nsp_1"] - P["P_nsm_1"]) / 2
    PS = (P["P_qq_1"] - P["P_nsp_1"]) / (2 * nf)
    quarks = [p for q in range(1, nf + 1) for p in (q, -q)]
    tot = 0
    for p in quarks:
        tot = tot + C.get(p, 0)
    out = {}
    for p in quarks:
        out[p] = C.get(p, 0) * PV + C.get(-p, 0) * PVb + PS * tot
    out[21] = tot * P["P_qg_1"] / (2 * nf)
    return out


def vadd(D, key, vec, factor=1):
    d = D.setdefault(key, {})
    for p, v in vec.items():
        d[p] = d.get(p, 0) + factor * v


def is_zero(v):
    if isinstance(v, S):
        return v.const is not None and v.const == 0
    return v == 0


def rge_residuals(tensors, P, nf, pto, ren, fact, gluon_free_at_0):
    """{('muF'|'muR', (k,i,j), pid): residual} -- all must vanish."""
    b0, b1 = beta0(nf), beta1(nf)
    D, E = {}, {}
    for (k, i, j), C in tensors.items():
        C = {p: v for p, v in C.items() if not is_zero(v)}
        if not C:
            continue
        # ---- d/d ln muF^2 ----
        if j >= 1:
            vadd(D, (k, i, j - 1), C, -j)
        cp0 = apply_P0(C, P, nf)
        vadd(D, (k + 1, i, j), cp0)
        vadd(D, (k + 2, i + 1, j), cp0, -b0)
        vadd(D, (k + 2, i, j + 1), cp0, b0)
        if k == 0:
            if 21 in C and not gluon_free_at_0:
                raise AssertionError("order-0 gluon coefficient: gluon rows of P^(1) would be needed")
            vadd(D, (k + 2, i, j), apply_P1(C, P, nf))
        else:
            # a^k * a_F^2 P1 with k >= 1 is O(a^3): beyond the muF claim
            pass
        # ---- d/d ln muR^2 ----
        if k >= 1:
            vadd(E, (k + 1, i, j), C, -k * b0)
            vadd(E, (k + 2, i, j), C, -k * b1)
        if i >= 1:
            vadd(E, (k, i - 1, j), C, -i)
    out = {}
    if fact:
        for (k, i, j), vec in D.items():
            if k > min(pto, 2) or (not ren and i > 0):
                continue
            for p, v in vec.items():
                out[("muF", (k, i, j), p)] = v
    if ren:
        for (k, i, j), vec in E.items():
            if k > pto or (not fact and j > 0):
                continue
            for p, v in vec.items():
                out[("muR", (k, i, j), p)] = v
    return out


def runner_manager(pto_evol, pto_dis, ren, fact):
    """the scale-variation manager the REAL Runner builds from a card with PTO = pto_evol (evolution) and PTODIS = pto_dis
    (coefficient functions): the logs have to accompany the coefficient functions, i.e. reach a_s^PTODIS"""
    import eko.matchings as em
    import yadism.log
    from yadism.runner import Runner
    from yv.props import c06

    yadism.log.silent_mode = True
    t, o = c06.cards(dict(mc=1.51, mb=4.92, mt=172.5, kc=1.0, kb=1.0, kt=1.0, Q2=10.0), "ZM-VFNS", 4, pto=pto_evol)
    t.update(PTODIS=pto_dis, RenScaleVar=ren, FactScaleVar=fact)
    with npshim.patched((em, "np", npshim.NPShim())):
        r = Runner(t, o)
    return r.configs.managers["sv_manager"]


def pairs_for(case, env):
    nf, pto, ren, fact, which = case["nf"], case["pto"], case["ren"], case["fact"], case["which"]
    sv0 = runner_manager(case["runner_pto_evol"], pto, ren, fact) if "runner_pto_evol" in case else None
    tensors, cen, P, sv = run_real_sv(env, nf, pto, ren, fact, which, sv=sv0)
    out = []
    # central tensors are what went in
    pids = None
    for (k, i, j), C in tensors.items():
        if i == 0 and j == 0:
            ref = {}
            for kz in cen:
                if k in kz["c"]:
                    for p, w in kz["w"].items():
                        ref[p] = ref.get(p, 0) + w * kz["c"][k]
            for p, v in C.items():
                out.append((f"central[{k}][{p}]", v, ref.get(p, 0)))
    has_intr = any(kz["intrinsic"] for kz in cen)
    if which == "i":
        # intrinsic channel: no factorisation-scale logs at all
        for (k, i, j), C in tensors.items():
            if j > 0:
                for p, v in C.items():
                    out.append((f"intrinsic: no muF log [{k},{i},{j}][{p}]", v, 0))
    # switches: keys of a switched-off variation are absent/zero
    for (k, i, j), C in tensors.items():
        if (not ren and i > 0) or (not fact and j > 0):
            for p, v in C.items():
                out.append((f"switched-off log vanishes [{k},{i},{j}][{p}]", v, 0))
    # RGE
    if "i" in which:
        # muF-RGE is denied for the intrinsic channel by design: check muR only on the full tensors
        res = rge_residuals(tensors, P, nf, pto, ren, False, True)
    else:
        res = rge_residuals(tensors, P, nf, pto, ren, fact, True)
    for (kind, mono, p), v in res.items():
        out.append((f"d/dln{kind}^2: a^{mono[0]} LR^{mono[1]} LF^{mono[2]} [{p}]", v, 0))
    return out, tensors


def switch_pairs(case, env):
    """switching a variation off leaves all other terms unchanged (compare with the both-on run)."""
    nf, pto, which = case["nf"], case["pto"], case["which"]
    full, _, _, _ = run_real_sv(env, nf, pto, True, True, which)
    out = []
    for ren, fact in ((True, False), (False, True), (False, False)):
        t, _, _, _ = run_real_sv(env, nf, pto, ren, fact, which)
        for (k, i, j), C in full.items():
            keep = (ren or i == 0) and (fact or j == 0)
            for p, v in C.items():
                got = t.get((k, i, j), {}).get(p, 0)
                out.append((f"ren={ren},fact={fact}: [{k},{i},{j}][{p}]", got, v if keep else 0))
    return out


def replay_case(args):
    env = Env(None, values=dict(args.get("values", {})))
    try:
        if args["case"].get("switch"):
            prs = switch_pairs(args["case"], env)
        else:
            prs, _ = pairs_for(args["case"], env)
    except Exception as e:  # noqa
        return True, f"{args['case']}: raises {type(e).__name__}: {e}"
    bad = harness.float_pairs_differ(prs, args.get("label"), rtol=1e-9)
    return (True, f"{args['case']}: {bad[:3]}") if bad else (False, "RGE residuals vanish at this point")


REPLAYERS = {"case": replay_case}


def float_pairs_case(args):
    env = Env(None, values=dict(args.get("values", {})))
    if args["case"].get("switch"):
        return switch_pairs(args["case"], env)
    return pairs_for(args["case"], env)[0]


REPLAYERS["case:pairs"] = float_pairs_case


def run(chk, only=None):
    from yadism.coefficient_functions import splitting_functions as split
    from yadism.esf import esf as esfmod
    from yadism.esf import scale_variations as svmod

    chk.encode(svmod.ScaleVariations.__init__, svmod.ScaleVariations.compute_raw, svmod.ScaleVariations.fact_matrices,
               svmod.ScaleVariations.ren_coeffs, svmod.ScaleVariations.apply_common_scale_variations,
               svmod.ScaleVariations.apply_diff_scale_variations, svmod.ScaleVariations.apply_raw_diff_scale_variations,
               svmod.build_orders, split.sector_mapping, split.joint_lo, split.c110, split.c211, split.c220, split.c220ns,
               split.empty_gluon, esfmod.EvaluatedStructureFunction.compute_local)
    chk.bounds = {"model": "Mellin-scalar operators: 1x1 symbolic matrices per splitting label, composite labels = products",
                  "nf": "3..6", "pto": "1..3", "switches": "4 combinations", "kernels": "quark-like (orders 0..pto), gluon (1..pto), "
                  "intrinsic (0..1), separately and together", "muF claim": "a_s power <= min(pto,2)", "muR claim": "a_s power <= pto"}
    chk.stub("ScaleVariations.operators pre-populated (compute_raw then skips convolve_operator): the N-th moment model",
             "Combiner -> synthetic kernels with symbolic weights; conv.convolve_vector -> symbolic central coefficient per (kernel, order)",
             "eko.beta and br.ad_projectors run for real (they are part of what is being checked against the oracle)")
    chk.assume("that the analytic kernels ARE the convolutions their labels name and that the NLO splitting functions equal the "
               "literature is outside (C03 gives their internal consistency)", "interpolation error of the operator representation is outside",
               "oracle: flavour-basis DGLAP written by hand (P_qiqk = d PV + PS, P_ns+- = PV +- PVb, P_qg/2nf), beta0 = 11-2nf/3, "
               "beta1 = 102-38nf/3, a(muF) re-expanded in a(muR)")
    q = chk.tier == "quick"
    cases = []
    for nf, pto, (ren, fact), which in itertools.product([3, 4, 5, 6], [1, 2, 3], [(True, True), (True, False), (False, True), (False, False)],
                                                         ["q", "g", "qg", "i", "qgi"]):
        if q and (nf + pto + 2 * ren + fact + len(which)) % 3:
            continue
        cases.append(dict(nf=nf, pto=pto, ren=ren, fact=fact, which=which))
    for nf, pto, which in itertools.product([3, 4, 5, 6], [1, 2, 3], ["qg", "i"]):
        if q and (nf + pto) % 2:
            continue
        cases.append(dict(nf=nf, pto=pto, which=which, switch=True))
    # the manager as the real Runner builds it from cards with PTODIS != PTO (and == PTO)
    for pto_evol, pto_dis in ((1, 2), (2, 3), (2, 2), (0, 1), (2, 1)) if q else ((1, 2), (2, 3), (2, 2), (0, 1), (2, 1), (1, 3), (0, 2), (1, 1), (0, 3)):
        cases.append(dict(nf=4, pto=pto_dis, ren=True, fact=True, which="qg", runner_pto_evol=pto_evol))
    n_res = 0
    for case in cases:
        cname = ":".join(f"{k}={v}" for k, v in case.items())
        with Ctx(chk.seed) as ctx:
            env = Env(ctx)
            try:
                if case.get("switch"):
                    prs = switch_pairs(case, env)
                else:
                    prs, tensors = pairs_for(case, env)
            except Exception as e:  # noqa
                chk.obligations += 1
                chk.report(f"raise:{cname}", f"{cname}: raises {type(e).__name__}: {str(e)[:120]}", "case", dict(case=case))
                continue
            n_res += len(prs)

            def rp_for(lab, ctx=ctx, case=case, env=env):
                def rp(model):
                    asg = explore.model_to_assign(ctx, model)
                    vals = {n: float(asg.get(n, ctx.assign.get(n, 1))) for n in env.names}
                    return "case", dict(case=case, values=vals, label=lab)
                return rp

            harness.prove_pairs(chk, cname, prs, ctx.facts(), rp_for, lambda lab, case=case: f"sv:pto{case['pto']}:{lab.split('[')[0][:40]}",
                                sample={"case": case, "n_claims": len(prs), "first": [l for l, _, _ in prs[-3:]]})
    # vacuity / perturbation: a wrong beta0 in the oracle must be refuted
    with Ctx(chk.seed) as ctx:
        env = Env(ctx)
        tensors, cen, P, sv = run_real_sv(env, 4, 2, True, True, "qg")
        res = rge_residuals(tensors, P, 4, 2, True, True, True)
        import yv.props.c05 as me

        old = me.beta0
        me.beta0 = lambda nf: real.Fr(11) - real.Fr(2 * nf, 3) + 1
        try:
            bad = rge_residuals(tensors, P, 4, 2, True, True, True)
        finally:
            me.beta0 = old
        chk.expect_sat("perturbed oracle (beta0+1)", ctx.facts() + [z3.Or(*[S.lift(v).t != 0 for v in bad.values()])], what="perturbation")
        chk.expect_sat("domain", ctx.facts())
        if not any(not is_zero(v) for k, v in tensors.get((2, 1, 1), {}).items()):
            chk.inconclusive_note("vacuity: no a^2 L_R L_F tensor was emitted at pto=2")
    chk.section("cases", n=len(cases), claims=n_res)
    chk.exhaustive = not q
    return chk.finish(
        explanation="The real scale-variation machinery (ScaleVariations, sector_mapping, eko projectors and beta coefficients, "
        "ESF.compute_local incl. the intrinsic filter) runs on symbolic Mellin-moment operators, central coefficients and parton "
        "weights; the emitted tensors are differentiated with a hand-written flavour-basis DGLAP/beta-function oracle and z3 "
        "proves every monomial of dF/dln muF^2 (a_s^k, k <= min(pto,2)) and dF/dln muR^2 (k <= pto) identically zero for all "
        "values of the symbols, for nf 3..6, pto 1..3, all switch combinations; plus: switched-off logs vanish and all other "
        "tensors equal the both-on run; the intrinsic channel emits no muF log.",
        rule="one obligation per (case, monomial, parton) residual or tensor entry; distinct = case; non-trivial = symbolic residual",
    )
