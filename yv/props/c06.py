"""C06 -- number of active flavours follows the thresholds and the scheme.

Engine A: the REAL Runner.__init__ (compatibility.update, eko Atlas, SF.load -> real ESF) and the real
Combiner run on symbolic masses, threshold ratios and Q2; np.digitize is replaced by its documented
meaning for increasing bins; every feasible path is explored.  Engine B (CrossHair): update_fns for an
unbounded symbolic int NfFF.
"""

import copy
import itertools

import numpy as np
import z3

from yv.engine import chrun, explore, harness, npshim, real, stubs
from yv.engine.real import S, Ctx
from yv.props import common as cm

BASE_THEORY = dict(
    PTO=1, PTODIS=1, FNS="ZM-VFNS", NfFF=4, nf0=3, mc=1.51, mb=4.92, mt=172.5, kcThr=1.0, kbThr=1.0, ktThr=1.0, MaxNfPdf=6,
    MP=0.938, Q0=1.65, HQ="POLE", TMC=0, RenScaleVar=True, FactScaleVar=True,
    CKM="0.97428 0.22530 0.003470 0.22520 0.97345 0.041000 0.00862 0.04030 0.999152", MW=80.398, MZ=91.1876,
    GF=1.1663787e-5, SIN2TW=0.23126, FONLLParts="full", n3lo_cf_variation=0, ModEv="EXA", alphas=0.118, alphaqed=0.007496,
    Qref=91.2, nfref=5, XIR=1.0, XIF=1.0, ModSV=None, IC=1, IB=0, Qmc=1.51, Qmb=4.92, Qmt=172.5, kDIScThr=1.0, kDISbThr=1.0,
    kDIStThr=1.0, QED=0)
BASE_OBS = dict(interpolation_xgrid=[1e-3, 0.1, 0.5, 1.0], interpolation_polynomial_degree=1, interpolation_is_log=True,
                prDIS="EM", TargetDIS="proton", ProjectileDIS="electron", PolarizationDIS=0.0, PropagatorCorrection=0.0,
                NCPositivityCharge=None, observables={})


def cards(V, scheme, nfff, obs="F2_total", pto=1):
    t = copy.deepcopy(BASE_THEORY)
    o = copy.deepcopy(BASE_OBS)
    t.update(FNS=scheme, NfFF=nfff, PTO=pto, PTODIS=pto, mc=V["mc"], mb=V["mb"], mt=V["mt"], kcThr=V["kc"], kbThr=V["kb"], ktThr=V["kt"])
    o["observables"] = {obs: [dict(x=0.1, Q2=V["Q2"])]}
    return t, o


def sym_values(ctx, tag=""):
    V = dict(mc=ctx.var("mc", 0, None, wlo=1, whi=2), mb=ctx.var("mb", 0, None, wlo=4, whi=5), mt=ctx.var("mt", 0, None, wlo=100, whi=200),
             kc=ctx.var("kc" + tag, 0, None, wlo=0.5, whi=2), kb=ctx.var("kb" + tag, 0, None, wlo=0.5, whi=2),
             kt=ctx.var("kt" + tag, 0, None, wlo=0.5, whi=2), Q2=ctx.var("Q2", 0, None, wlo=1, whi=40000))
    return V


def monotone(V):
    """NumPy's documented precondition of digitize: increasing bins (otherwise it raises = a rejection)."""
    t = [V["mc"] * V["kc"], V["mb"] * V["kb"], V["mt"] * V["kt"]]
    return [(t[0] * t[0]).t <= (t[1] * t[1]).t, (t[1] * t[1]).t <= (t[2] * t[2]).t]


def build(V, scheme, nfff, record=None):
    """real Runner -> real ESF -> real Combiner; returns (nf used by the Combiner, kernel form, nf seen by the SV manager)."""
    import eko.matchings as em
    import yadism.coefficient_functions as cf
    import yadism.log
    from yadism.esf import conv, esf as esfmod
    from yadism.esf import scale_variations as svmod
    from yadism.runner import Runner

    yadism.log.silent_mode = True
    t, o = cards(V, scheme, nfff, pto=2)
    EXTRA = ("F2_charm", "FL_bottom", "F3_top") if scheme == "ZM-VFNS" else (("F2_charm", "F2_bottom", "F2_top") if scheme in ("FFNS", "FFN0") else ())
    # flavour-tagged observables next to the inclusive one: their coefficient functions live in the same nf
    for extra in EXTRA:
        o["observables"][extra] = [dict(x=0.1, Q2=V["Q2"])]
    seen_nf = []

    def rec_common(self, ker_orders, nf):
        seen_nf.append(nf)
        return []

    def rec_diff(self, ker_orders, nf):
        seen_nf.append(nf)
        return []

    def fake_convolve_vector(rsl, interpolator, chi):
        n = len(interpolator.xgrid.raw) if hasattr(interpolator, "xgrid") else 4
        return np.zeros(n), np.zeros(n)

    fake_conv = type("FakeConv", (), {"convolve_vector": staticmethod(fake_convolve_vector)})
    with npshim.patched((em, "np", npshim.NPShim()), (svmod.ScaleVariations, "apply_common_scale_variations", rec_common),
                        (svmod.ScaleVariations, "apply_diff_scale_variations", rec_diff), (esfmod, "conv", fake_conv),
                        (esfmod, "np", npshim.ObjZerosShim())):
        r = Runner(t, o)
        esf_ = r.observables["F2_total"].elements[0]
        comb = cf.Combiner(esf_)
        ks = comb.collect_elems()
        form = {(k_[0][0], k_[0][1], k_[1]): v for k_, v in cm.linear_form(ks).items()}
        esf_.compute_local()
        tagged = []
        for extra in EXTRA + (("F2_total",) if scheme != "ZM-VFNS" else ()):
            if extra in r.observables:
                for k_ in cf.Combiner(r.observables[extra].elements[0]).collect_elems():
                    if ".intrinsic." in type(k_.coeff).__module__:
                        continue  # massive intrinsic channels are built for the flavours below their own quark (their documented convention)
                    tagged.append((extra, type(k_.coeff).__module__.split(".")[-2] + "." + type(k_.coeff).__name__, getattr(k_.coeff, "nf", None)))
    seen_nf = SeenNf(seen_nf)
    seen_nf.tagged = tagged  # (observable, channel class, nf of the coefficient function)
    return comb.nf, form, seen_nf


class SeenNf(list):
    tagged = ()


def replay_tagged(args):
    import yadism.coefficient_functions as cf
    import yadism.log
    from yadism.runner import Runner

    yadism.log.silent_mode = True
    V = args["values"]
    t, o = cards(V, "ZM-VFNS", 4, pto=2)
    for extra in ("F2_charm", "FL_bottom", "F3_top"):
        o["observables"][extra] = [dict(x=0.1, Q2=V["Q2"])]
    try:
        r = Runner(t, o)
    except ValueError as e:
        return False, f"rejected: {e}"
    nf = cf.Combiner(r.observables["F2_total"].elements[0]).nf
    bad = []
    for extra in ("F2_charm", "FL_bottom", "F3_top"):
        for k_ in cf.Combiner(r.observables[extra].elements[0]).collect_elems():
            n_ = getattr(k_.coeff, "nf", None)
            if n_ is not None and n_ != nf:
                bad.append((extra, type(k_.coeff).__name__, n_))
    return (True, f"ZM-VFNS at {V}: nf={nf}, but {bad[:4]}") if bad else (False, "all coefficient functions in the active nf")


def replay_taggedff(args):
    import yadism.coefficient_functions as cf
    import yadism.log
    from yadism.runner import Runner

    yadism.log.silent_mode = True
    V = args["values"]
    t, o = cards(V, args["scheme"], args["nfff"], pto=2)
    names = ("F2_total", "F2_charm", "F2_bottom", "F2_top")
    for extra in names[1:]:
        o["observables"][extra] = [dict(x=0.1, Q2=V["Q2"])]
    try:
        r = Runner(t, o)
    except ValueError as e:
        return False, f"rejected: {e}"
    bad = []
    for extra in names:
        for k_ in cf.Combiner(r.observables[extra].elements[0]).collect_elems():
            n_ = getattr(k_.coeff, "nf", None)
            if ".intrinsic." not in type(k_.coeff).__module__ and n_ is not None and n_ != args["nfff"]:
                bad.append((extra, type(k_.coeff).__name__, n_))
    return (True, f"{args['scheme']} NfFF={args['nfff']} at {V}: {bad[:4]}") if bad else (False, "all coefficient functions built for NfFF flavours")


def replay_nf(args):
    import yadism
    import yadism.coefficient_functions as cf
    import yadism.log
    from yadism.runner import Runner

    yadism.log.silent_mode = True
    V = args["values"]
    t, o = cards(V, args["scheme"], args["nfff"])
    try:
        r = Runner(t, o)
        nf = cf.Combiner(r.observables["F2_total"].elements[0]).nf
    except ValueError as e:
        return False, f"rejected: {e}"
    if args["scheme"] == "ZM-VFNS":
        want = 3 + sum(1 for m, k in (("mc", "kc"), ("mb", "kb"), ("mt", "kt")) if (V[m] * V[k]) ** 2 <= V["Q2"])
    else:
        want = args["nfff"]
    if nf != want:
        return True, f"{args['scheme']} NfFF={args['nfff']} at {V}: coefficient functions use nf={nf}, expected {want}"
    return False, f"nf={nf} as expected"


def replay_svnf(args):
    try:
        nf, form, seen_nf = build(args["values"], args["scheme"], args["nfff"])
    except ValueError as e:
        return False, f"rejected: {e}"
    if not seen_nf or any(n != nf for n in seen_nf):
        return True, f"{args['scheme']} NfFF={args['nfff']} at {args['values']}: coefficient functions use nf={nf}, scale variations got {seen_nf}"
    return False, f"nf={nf}, SV nf={seen_nf}"


def replay_beta(args):
    from yadism.esf import scale_variations as svmod

    shared = svmod.ScaleVariations(order=args["order"], interpolator=None, activate_ren=True, activate_fact=False)
    for nf in args["seq"]:
        rc = shared.ren_coeffs(nf)
        b0 = 11.0 - 2.0 * nf / 3.0
        if abs(rc[(2, 1, 1)] - b0) > 1e-12:
            return True, f"after the sequence {args['seq']}: the a_s^2 ln muR coefficient for nf={nf} is {rc[(2, 1, 1)]}, beta0(nf) = {b0}"
    return False, "beta0 follows nf"


CENSUS_CELLS = [(proc, pid, obs, sch) for proc, pid in (("EM", 11), ("NC", 11), ("CC", 11), ("CC", -12))
                for obs in ("F2_total", "F3_total", "FL_light") for sch in ("ZM-VFNS", "FFNS") if not (proc == "EM" and obs.startswith("F3"))]


def census_kernels(P, Q2, proc, pid, obs, sch, nf, pto=1):
    """massless ('light') kernels of the real Combiner for a configuration whose number of active flavours is nf"""
    ks = cm.run_combiner(P, obs=obs, process=proc, pid=pid, Q2=Q2, scheme=sch, nf=nf, ZMq=(sch == "ZM-VFNS",) * 3, pto=pto)
    return [k for k in ks if ".light." in type(k.coeff).__module__]


def replay_census(args):
    with cm.fixed_nf():
        ks = census_kernels(cm.ew_params(values=args["params"]), args["params"]["Q2"], args["proc"], args["pid"], args["obs"], args["sch"], args["nf"])
    got = sorted({abs(p) for k in ks for p, w in k.partons.items() if p != 21 and float(w) != 0.0})
    want = list(range(1, args["nf"] + 1))
    if ks and got != want:
        return True, f"{args['proc']}/{args['pid']} {args['obs']} {args['sch']} with nf={args['nf']}: massless coefficient functions are fed by quarks {got}, the active ones are {want}"
    return False, f"quarks {got}"


def cc_census_pairs(P, Q2, pid, obs, sch, nf):
    """[(label, non-singlet weight of parton p summed over the massless kernels, 2 * sum of |V|^2 over the ACTIVE partners)] -- charged current.
    W- (electron / antineutrino beams) is absorbed by up-type quarks and down-type antiquarks, W+ by the others; xF3 weights carry sign(p)."""
    ks = [k for k in census_kernels(P, Q2, "CC", pid, obs, sch, nf) if type(k.coeff).__name__.startswith("NonSinglet")]
    if not ks:
        raise AssertionError(f"no massless non-singlet kernel for CC {obs} nf={nf}")
    names = {1: "d", 2: "u", 3: "s", 4: "c", 5: "b", 6: "t"}
    wminus = pid in (11, -12)
    out = []
    for p in [q * s_ for q in range(1, 7) for s_ in (1, -1)]:
        q = abs(p)
        got = 0
        for k in ks:
            got = got + k.partons.get(p, 0)
        up = q % 2 == 0
        couples = q <= nf and ((up == (p > 0)) if wminus else (up != (p > 0)))
        ref = 0
        if couples:
            for q2 in range(1, nf + 1):
                if (q2 % 2 == 0) != up:
                    ref = ref + 2 * P["V2_" + (names[q] + names[q2] if up else names[q2] + names[q])]
            if obs.startswith("F3"):
                ref = ref * (1 if p > 0 else -1)
        out.append((f"ns[{p}]", got, ref))
    return out


def replay_cc_census(args):
    with cm.fixed_nf():
        prs = cc_census_pairs(cm.ew_params(values=args["params"]), args["params"]["Q2"], args["pid"], args["obs"], args["sch"], args["nf"])
    bad = harness.float_pairs_differ(prs, args.get("label"))
    return (True, f"CC/{args['pid']} {args['obs']} {args['sch']} nf={args['nf']}: non-singlet weights are not 2*sum |V|^2 over the active partners: {bad[:3]}") if bad else (False, "holds")


def float_pairs_cc_census(args):
    with cm.fixed_nf():
        return cc_census_pairs(cm.ew_params(values=args["params"]), args["params"]["Q2"], args["pid"], args["obs"], args["sch"], args["nf"])


REPLAYERS = {"cccensus": replay_cc_census, "cccensus:pairs": float_pairs_cc_census, "census": replay_census, "taggedff": replay_taggedff, "tagged": replay_tagged, "nf": replay_nf, "svnf": replay_svnf, "beta": replay_beta}


def vals(ctx, model, tag=""):
    asg = explore.model_to_assign(ctx, model)
    g = lambda n: float(asg.get(n, ctx.assign.get(n, 1)))
    return dict(mc=g("mc"), mb=g("mb"), mt=g("mt"), kc=g("kc" + tag), kb=g("kb" + tag), kt=g("kt" + tag), Q2=g("Q2"))


def run(chk, only=None):
    import yadism.coefficient_functions as cf
    from yadism.input import compatibility
    from yadism.runner import Runner

    chk.encode(Runner.__init__, cf.Combiner.__init__, compatibility.update, compatibility.update_fns)
    chk.bounds = {"Q2, masses, threshold ratios": "> 0 symbolic, ordered (m_c k_c)^2 <= (m_b k_b)^2 <= (m_t k_t)^2 in ZM-VFNS",
                  "NfFF": "3..6 through the real Runner; unbounded int in the CrossHair harness of update_fns",
                  "schemes": cm.SCHEMES}
    chk.stub("np.digitize(x, bins) in eko.matchings -> #{i: bins[i] <= x} (documented meaning for increasing bins)",
             "products m^2 * inf -> extended reals", "scale-variation manager methods record the nf they are given; conv.convolve_vector -> zeros")
    chk.assume("'one ulp below/above' has no meaning over the reals: the boundary convention at equality is what is covered",
               "unordered matching scales make np.digitize raise (a rejection), outside the claim")
    # ---- ZM-VFNS: nf = 3 + #{(m k)^2 <= Q2} on every path; SV gets the same nf; kernels depend on thresholds only through nf ----
    if only in (None, "zm"):
        with Ctx(chk.seed) as ctx, stubs.cf_stubs():
            def body():
                V = sym_values(ctx)
                return V, build(V, "ZM-VFNS", 4)

            V0 = sym_values(ctx)
            ctx.domain += monotone(V0)
            ex = explore.Explorer(ctx, max_paths=64, timeout_ms=5000)
            paths = ex.run(body)
            chk.paths += len(paths)
            seen = set()
            forms = {}
            for i, p in enumerate(paths):
                ctx.assign = dict(p.assign)
                if p.kind == "exc":
                    chk.inconclusive_note(f"ZM-VFNS path{i}: raises {type(p.value).__name__}: {str(p.value)[:100]}")
                    continue
                V, (nf, form, seen_nf) = p.value
                seen.add(nf)
                thr = [(V[m] * V[k]) for m, k in (("mc", "kc"), ("mb", "kb"), ("mt", "kt"))]
                count = z3.Sum([z3.If((t * t).t <= V["Q2"].t, 1, 0) for t in thr])
                chk.prove(f"ZM-VFNS/path{i}: nf={nf} == 3 + #thresholds<=Q2", count == nf - 3, ctx.facts() + p.pc, key="nf:ZM-VFNS",
                          replay=lambda m, ctx=ctx: ("nf", dict(scheme="ZM-VFNS", nfff=4, values=vals(ctx, m))),
                          what="ZM-VFNS: number of active flavours is not 3 + #{(m k)^2 <= Q2}")
                chk.obligations += 1
                if seen_nf and all(n == nf for n in seen_nf):
                    chk.discharged += 1
                else:
                    chk.report("svnf:ZM-VFNS", f"scale-variation manager got nf={seen_nf}, coefficient functions use {nf}", "svnf",
                               dict(scheme="ZM-VFNS", nfff=4, values=vals(ctx, None)))
                forms.setdefault(nf, []).append((i, form))
                chk.obligations += 1
                badt = [t_ for t_ in seen_nf.tagged if t_[2] is not None and t_[2] != nf]
                if not badt:
                    chk.discharged += 1
                else:
                    chk.report("nf:ZM-VFNS:tagged", f"ZM-VFNS with nf={nf}: coefficient functions of flavour-tagged observables are built for another nf: {badt[:3]}",
                               "tagged", dict(values=vals(ctx, None)))
            chk.obligations += 1
            if seen == {3, 4, 5, 6}:
                chk.discharged += 1
                chk.vacuity["reach_ok"] += 1
            else:
                chk.inconclusive_note(f"vacuity: nf values reached {sorted(seen)}")
            # same count => identical kernel lists (weights are concrete here: EM)
            for nf, lst in forms.items():
                for (i, f) in lst[1:]:
                    chk.obligations += 1
                    same = set(f) == set(lst[0][1]) and all(_same(f[k], lst[0][1][k]) for k in f)
                    if same:
                        chk.discharged += 1
                    else:
                        chk.report("thresholds-only-through-nf", f"kernel lists differ between two threshold settings with nf={nf}", "nf",
                                   dict(scheme="ZM-VFNS", nfff=4, values=vals(ctx, None)))
    # ---- fixed-flavour schemes: nf == NfFF at every Q2 ----
    if only in (None, "ffns"):
        for scheme, nfff in itertools.product(["FFNS", "FFN0", "FONLL-FFNS", "FONLL-FFN0"], [3, 4, 5, 6]):
            if scheme.startswith("FONLL") and nfff == 6:
                continue
            if chk.tier == "quick" and scheme in ("FFN0", "FONLL-FFN0") and nfff in (4,):
                continue
            with Ctx(chk.seed) as ctx, stubs.cf_stubs():
                def body(scheme=scheme, nfff=nfff):
                    V = sym_values(ctx)
                    return V, build(V, scheme, nfff)

                ex = explore.Explorer(ctx, max_paths=32, timeout_ms=5000)
                paths = ex.run(body)
                chk.paths += len(paths)
                for i, p in enumerate(paths):
                    ctx.assign = dict(p.assign)
                    if p.kind == "exc":
                        chk.notes.append(f"{scheme}/NfFF={nfff}/path{i}: raises {type(p.value).__name__}: {str(p.value)[:100]}")
                        chk.inconclusive_note(f"{scheme}/NfFF={nfff}/path{i}: raises {type(p.value).__name__}: {str(p.value)[:100]}")
                        continue
                    V, (nf, form, seen_nf) = p.value
                    chk.obligations += 2
                    chk.evaluations += 1
                    chk.nontrivial.add(f"{scheme}/{nfff}")
                    if nf == nfff:
                        chk.discharged += 1
                    else:
                        chk.report(f"nf:{scheme}:{nfff}", f"{scheme} NfFF={nfff}: coefficient functions use nf={nf} on a feasible path", "nf",
                                   dict(scheme=scheme, nfff=nfff, values=vals(ctx, None)))
                    if seen_nf and all(n == nf for n in seen_nf):
                        chk.discharged += 1
                    else:
                        chk.report(f"svnf:{scheme}:{nfff}", f"scale-variation manager got nf={seen_nf}, coefficient functions use {nf}", "svnf",
                                   dict(scheme=scheme, nfff=nfff, values=vals(ctx, None)))
                    if getattr(seen_nf, "tagged", None):
                        chk.obligations += 1
                        badt = [t_ for t_ in seen_nf.tagged if t_[2] is not None and t_[2] != nfff]
                        if not badt:
                            chk.discharged += 1
                        else:
                            chk.report(f"nf:{scheme}:tagged", f"{scheme} NfFF={nfff}: coefficient functions built for another number of flavours: {badt[:3]}", "taggedff",
                                       dict(scheme=scheme, nfff=nfff, values=vals(ctx, None)))
    # ---- the same nf governs the beta coefficients of the scale-variation terms, whatever was computed before ----
    if only in (None, "beta"):
        from yadism.esf import scale_variations as svmod

        for order, seq in itertools.product((2, 3), ([3, 5, 4, 3, 6], [6, 4, 5, 3])):
            shared = svmod.ScaleVariations(order=order, interpolator=None, activate_ren=True, activate_fact=False)
            with Ctx(chk.seed) as ctx:
                w = ctx.var("w", None, None)
                c = ctx.var("c", None, None)
                for nf in seq:
                    partons = np.empty((2, 1), dtype=object)
                    partons[:, 0] = [w, 2 * w]
                    val = np.empty((1, 1), dtype=object)
                    val[0, 0] = c
                    kers = shared.apply_raw_diff_scale_variations([((1, 0, 0, 0), (partons, val, val))], nf)
                    got = {k_[0]: k_[1][0][0, 0] for k_ in kers}
                    b0 = real.Fr(11) - real.Fr(2 * nf, 3)
                    b1 = real.Fr(102) - real.Fr(38 * nf, 3)
                    want = {(2, 0, 1, 0): b0 * w}
                    if order >= 3:
                        want.update({(3, 0, 1, 0): b1 * w, (3, 0, 2, 0): b0 * b0 * w})
                    for key_, ref in want.items():
                        chk.prove(f"beta:{order}:{seq}:nf{nf}:{key_}", S.lift(got.get(key_, 0)).t == S.lift(ref).t, ctx.facts(),
                                  key=f"beta:nf:{key_}", what=f"scale-variation coefficient {key_} is not the beta coefficient of nf={nf} (sequence {seq})",
                                  replay=lambda m, order=order, seq=seq: ("beta", dict(order=order, seq=seq)))
    # ---- flavour census: the massless coefficient functions are fed by exactly the nf active quarks (every process, nf = 3..6) ----
    if only in (None, "census"):
        for (proc, pid, obs, sch), nf in itertools.product(CENSUS_CELLS, [3, 4, 5, 6]):
            if chk.tier == "quick" and sch == "FFNS" and not (obs == "F2_total" and pid == 11):
                continue
            cname = f"census:{proc}:{pid}:{obs}:{sch}:nf={nf}"
            if not chk.mine(cname):
                continue
            with Ctx(chk.seed) as ctx, cm.fixed_nf(), cm.generic_drop_empty(), stubs.cf_stubs():
                def body():
                    return census_kernels(cm.ew_params(ctx), ctx.var("Q2", 0, None, wlo=1, whi=20000), proc, pid, obs, sch, nf)

                paths = explore.Explorer(ctx, max_paths=8, timeout_ms=3000).run(body)
                chk.paths += len(paths)
                for pi, p in enumerate(paths):
                    ctx.assign = dict(p.assign)
                    if p.kind == "exc":
                        chk.notes.append(f"{cname}: raises {type(p.value).__name__}: {str(p.value)[:80]} (C16)")
                        continue
                    if not p.value:
                        continue
                    chk.obligations += 1
                    fed = set()
                    for k_ in p.value:
                        for q_, w in k_.partons.items():
                            if q_ == 21 or abs(q_) in fed:
                                continue
                            w = S.lift(w)
                            if w.const is not None:
                                nonzero = w.const != 0
                            elif harness._witness_differs(w, 0):
                                nonzero = True  # non-zero at the witness point: not identically zero
                            else:
                                chk.evaluations += 1
                                nonzero = chk.prover.prove(w.t == 0, ctx.facts() + p.pc + p.generic, cname).status != "unsat"
                            if nonzero:
                                fed.add(abs(q_))
                    params = {k: float(ctx.assign.get(k, 1)) for k in cm.EW_PARAMS + ["Q2"]}
                    if fed == set(range(1, nf + 1)):
                        chk.discharged += 1
                        chk.nontrivial.add(cname)
                    else:
                        chk.report(f"census:{proc}:{obs}:{sch}:{nf}", f"{cname}: massless coefficient functions are fed by quarks {sorted(fed)}, the active ones are 1..{nf}",
                                   "census", dict(proc=proc, pid=pid, obs=obs, sch=sch, nf=nf, params=params))
        # charged current: every active quark enters with the CKM elements of its ACTIVE partners only (symbolic CKM matrix)
        for pid, obs, sch, nf in itertools.product([11, -11, 12, -12], ["F2_total", "F3_total", "FL_total"], ["ZM-VFNS", "FFNS"], [3, 4, 5, 6]):
            if chk.tier == "quick" and not (pid in (11, -11) and obs != "FL_total" and (sch == "ZM-VFNS" or nf == 4)):
                continue
            cname = f"census:CC:{pid}:{obs}:{sch}:nf={nf}:ckm"
            if not chk.mine(cname):
                continue
            with Ctx(chk.seed) as ctx, cm.fixed_nf(), cm.generic_drop_empty(), stubs.cf_stubs():
                def body():
                    return cc_census_pairs(cm.ew_params(ctx), ctx.var("Q2", 0, None, wlo=1, whi=20000), pid, obs, sch, nf)

                paths = explore.Explorer(ctx, max_paths=8, timeout_ms=3000).run(body)
                chk.paths += len(paths)
                for pi, p in enumerate(paths):
                    ctx.assign = dict(p.assign)
                    if p.kind == "exc":
                        chk.inconclusive_note(f"{cname}: raises {type(p.value).__name__}: {str(p.value)[:80]}")
                        continue

                    def rp_for(lab, ctx=ctx, pid=pid, obs=obs, sch=sch, nf=nf):
                        def rp(model):
                            asg = explore.model_to_assign(ctx, model)
                            params = {k: float(asg.get(k, ctx.assign.get(k, 1))) for k in cm.EW_PARAMS + ["Q2"]}
                            return "cccensus", dict(pid=pid, obs=obs, sch=sch, nf=nf, params=params, label=lab)
                        return rp

                    harness.prove_pairs(chk, cname, p.value, ctx.facts() + p.pc + p.generic, rp_for,
                                        lambda lab, pid=pid, obs=obs, sch=sch, nf=nf: f"cccensus:{pid}:{obs}:{sch}:{nf}:{lab}")
    # ---- Engine B: update_fns for every int NfFF ----
    if only in (None, "ch"):
        for target in ("yv.ch.h_fns.check_fns", "yv.ch.h_fns.check_unknown_scheme"):
            r = chrun.crosshair_check(target, timeout=60 if chk.tier == "quick" else 300)
            chk.obligations += 1
            chk.evaluations += 1
            chk.nontrivial.add(target)
            chk.section("crosshair", **{target: f"{r['status']} ({r['secs']:.1f}s)"})
            if r["status"] == "confirmed":
                chk.discharged += 1
            elif r["status"] == "refuted":
                chk.report(f"crosshair:{target}", f"CrossHair counterexample for {target}: {r['text'][-300:]}", "crosshair",
                           dict(target=target, text=r["text"][-600:]))
            else:
                chk.inconclusive_note(f"{target}: CrossHair {r['status']}: {r['text'][-200:]}")
    return chk.finish(
        explanation="The real Runner.__init__ (compatibility.update, eko Atlas, real ESF) and Combiner run on symbolic masses, "
        "threshold ratios and Q2 with np.digitize replaced by its documented meaning; on every feasible path z3 proves "
        "nf == 3 + #{(m k)^2 <= Q2} (ZM-VFNS, equality included), nf == NfFF for FFNS/FFN0/FONLL at every Q2, that the "
        "scale-variation manager receives the same nf and that kernel lists depend on the thresholds only through nf. Flavour census: the real "
        "Combiner on symbolic electroweak parameters and Q2, for EM/NC/CC (both projectile charges) and nf = 3..6 -- the quarks whose weight in the "
        "massless kernels is not identically zero (constant folding, witness point, else a z3 query) are exactly 1..nf, and in charged current (symbolic CKM matrix, all four beams) z3 proves every non-singlet weight "
        "equal to 2 * sum of |V|^2 over the ACTIVE partners. CrossHair "
        "confirms over all paths, for an unbounded int NfFF, that update_fns produces exactly clamp(NfFF-3,0,3) zero thresholds "
        "followed by inf ones with the documented massless flags, and that unknown schemes raise ValueError.",
        rule="one obligation per (scheme, NfFF, path) and per CrossHair condition; distinct = (scheme, NfFF) / condition; non-trivial = symbolic path",
    )


def _same(a, b):
    if isinstance(a, S) or isinstance(b, S):
        a, b = S.lift(a), S.lift(b)
        return a.const is not None and a.const == b.const or a.t.get_id() == b.t.get_id()
    return a == b


def replay_crosshair(args):
    r = chrun.crosshair_check(args["target"], timeout=60)
    return r["status"] == "refuted", r["text"][-400:]


REPLAYERS["crosshair"] = replay_crosshair
