"""C15 -- serialised output round-trips losslessly.

The real Output.{get_raw, dump_yaml, load_yaml, dump_tar, load_tar} and ESFResult/EXSResult.{get_raw,
from_document} run on outputs whose numbers are symbolic tokens (so that every value can be traced to
where it ends up); PyYAML, NumPy's npz files, tarfile, tempfile and pathlib are replaced by in-memory
CONTRACTS (YAML: identity on YAML-native data and an error on anything else).  The structure lattice
(number of observables, points per observable in {None, 0, 1, 2}, SF/XS, number of orders, nf None/int)
is enumerated; equality of every loaded field with the original is decided on the tokens' terms.
"""

import copy
import itertools
import posixpath

import numpy as np
import z3

from yv.engine import explore, harness, npshim, real
from yv.engine.real import S, Ctx

# ---------------------------------------------------------------------------------------------
# contracts
# ---------------------------------------------------------------------------------------------


class NotYamlNative(TypeError):
    pass


def yaml_native_copy(o, path="$", safe=True):
    """what a YAML dump followed by a load returns: a structurally equal copy, for YAML-native data only"""
    if o is None or isinstance(o, (bool, int, float, str)) and not isinstance(o, (np.generic,)):
        return o
    if isinstance(o, S):
        return o  # a float token
    if isinstance(o, dict):
        return {yaml_native_copy(k, path + ".key", safe): yaml_native_copy(v, f"{path}.{k}", safe) for k, v in o.items()}
    if isinstance(o, list):
        return [yaml_native_copy(v, f"{path}[{i}]", safe) for i, v in enumerate(o)]
    raise NotYamlNative(f"{path}: {type(o).__name__} is not a YAML-native type (safe_load cannot read it back)")


class FakeYaml:
    def __init__(self):
        self.docs = []

    def dump(self, data, stream=None, default_flow_style=None, **kw):
        doc = ("yaml-document", yaml_native_copy(data))
        if stream is None:
            return doc
        stream.write(doc)
        return None

    safe_dump = dump

    def safe_load(self, stream):
        doc = stream.read() if hasattr(stream, "read") else stream
        if not (isinstance(doc, tuple) and doc and doc[0] == "yaml-document"):
            raise ValueError("not a YAML document")
        return yaml_native_copy(doc[1])

    load = safe_load


class FS:
    """in-memory file system shared by the fakes"""

    def __init__(self):
        self.files = {}
        self.n = 0


class FakePath:
    def __init__(self, fs, p):
        self.fs, self.p = fs, posixpath.normpath(str(p))

    def __truediv__(self, other):
        return FakePath(self.fs, posixpath.join(self.p, str(other)))

    def __str__(self):
        return self.p

    __fspath__ = __str__

    @property
    def suffix(self):
        return posixpath.splitext(self.p)[1]

    @property
    def stem(self):
        return posixpath.splitext(posixpath.basename(self.p))[0]

    def write_text(self, text, encoding=None):
        self.fs.files[self.p] = text

    def read_text(self, encoding=None):
        return self.fs.files[self.p]

    def mkdir(self, *a, **k):
        self.fs.files[self.p] = "DIR"

    def glob(self, pat):
        assert pat == "*"
        kids = sorted({f[len(self.p) + 1:].split("/")[0] for f in self.fs.files if f.startswith(self.p + "/")})
        return iter([FakePath(self.fs, posixpath.join(self.p, k)) for k in kids])


def make_env():
    fs = FS()
    yml = FakeYaml()

    class FakePathlib:
        @staticmethod
        def Path(p):
            return p if isinstance(p, FakePath) else FakePath(fs, p)

    class TmpDir:
        def __enter__(self):
            fs.n += 1
            self.name = f"/tmp/fake{fs.n}"
            fs.files[self.name] = "DIR"
            return self.name

        def __exit__(self, *a):
            for f in [f for f in fs.files if f == self.name or f.startswith(self.name + "/")]:
                del fs.files[f]

    class FakeTempfile:
        TemporaryDirectory = TmpDir

    class Tar:
        def __init__(self, path, mode):
            self.path, self.mode = str(path), mode

        def __enter__(self):
            return self

        def __exit__(self, *a):
            pass

        def add(self, d, arcname=None):
            d = str(d)
            fs.files["TAR:" + self.path] = {posixpath.join(arcname, f[len(d) + 1:]) if f != d else arcname: copy.copy(c)
                                            for f, c in fs.files.items() if f == d or f.startswith(d + "/")}

        def extractall(self, d):
            for f, c in fs.files["TAR:" + self.path].items():
                fs.files[posixpath.join(str(d), f)] = c

    class FakeTarfile:
        open = staticmethod(lambda path, mode="r": Tar(path, mode))

    class NPIO(npshim.NPShim):
        @staticmethod
        def array(obj, dtype=None, **kw):
            """numbers are float64 in yadism's results: a conversion to any narrower or integer dtype is a lossy cast, modelled as an
            uninterpreted function of the token (so the loaded token is provably the original only if no such cast sits on the path)"""
            if dtype is not None and npshim._has_sym(obj):
                try:
                    dt = np.dtype(dtype)
                except TypeError:
                    dt = None
                if dt is not None and dt != object and not (dt.kind == "f" and dt.itemsize >= 8) and dt.kind in "fiu":
                    ctx_ = real.cur()
                    cast = np.frompyfunc(lambda e: ctx_.ufun(f"cast_{dt.name}", [e]) if isinstance(e, S) else e, 1, 1)
                    return cast(np.array(obj, dtype=object))
            return npshim.NPShim.array(obj, dtype=dtype, **kw)

        @staticmethod
        def asarray(obj, dtype=None, **kw):
            return NPIO.array(obj, dtype=dtype, **kw) if dtype is not None and npshim._has_sym(obj) else npshim.NPShim.asarray(obj, dtype=dtype, **kw)

        @staticmethod
        def savez_compressed(path, **arrays):
            p = str(path)
            fs.files[p if p.endswith(".npz") else p + ".npz"] = {k: np.array(v, dtype=object) if npshim._has_sym(v) else np.array(v) for k, v in arrays.items()}

        @staticmethod
        def load(path):
            return fs.files[str(path)]

    return fs, yml, FakePathlib, FakeTempfile, FakeTarfile, NPIO()


class Stream:
    def __init__(self):
        self.doc = None

    def write(self, d):
        self.doc = d

    def read(self):
        return self.doc


def ident(v):
    return v


# ---------------------------------------------------------------------------------------------
# outputs to round-trip
# ---------------------------------------------------------------------------------------------

# deliberately NOT in sorted order (as scale_variations.build_orders emits them from NNLO on)
ORDER_KEYS = [(0, 0, 0, 0), (2, 0, 1, 0), (2, 0, 0, 1), (1, 0, 0, 0)]


XS_KINDS = ["XSHERANC", "XSHERANCAVG", "XSHERACC", "XSCHORUSCC", "XSNUTEVCC", "XSNUTEVNU", "FW", "F1", "g5", "XSFPFCC"]


def make_output(mk, shape):
    """shape: list of (name, npoints|None, norders, nf) ; numbers are tokens from mk(name)"""
    from yadism.esf.result import ESFResult, EXSResult
    from yadism.output import Output

    out = Output()
    out.theory = {"PTO": 1, "mc": mk("theory.mc"), "FNS": "FFNS", "nested": {"a": [1, 2, mk("theory.nested")]}}
    out.observables = {"prDIS": "NC", "observables": {n: ([] if p is None else [{"x": 0.1}] * p) for n, p, _, _ in shape}}
    out["xgrid"] = {"grid": [mk("grid0"), mk("grid1")], "log": True}
    out["polynomial_degree"] = 2
    out["is_log"] = True
    out["pids"] = [21, 2]
    out["projectilePID"] = -11
    for name, npts, nord, nf in shape:
        if npts is None:
            out[name] = None
            continue
        pts = []
        for i in range(npts):
            xs = name.split("_")[0] in XS_KINDS
            # nf == 0 marks a cross-section observable all of whose points sit at y = 0.0 (a number, as in yadism's own benchmark cards)
            yv_ = 0.0 if (xs and nf == 0) else mk(f"{name}[{i}].y")
            r = EXSResult(mk(f"{name}[{i}].x"), mk(f"{name}[{i}].Q2"), yv_, None if nf == 0 else nf) if xs else ESFResult(
                mk(f"{name}[{i}].x"), mk(f"{name}[{i}].Q2"), nf)
            for o in ORDER_KEYS[:nord]:
                v = np.empty((2, 2), dtype=object)
                e = np.empty((2, 2), dtype=object)
                for a, b in itertools.product(range(2), range(2)):
                    v[a, b] = mk(f"{name}[{i}].{o}.v[{a},{b}]")
                    e[a, b] = mk(f"{name}[{i}].{o}.e[{a},{b}]")
                r.orders[o] = (v, e)
            pts.append(r)
        out[name] = pts
    return out


EQS = []  # (path, term of the original, term of the loaded object): equalities the solver has to decide


def same(a, b, path, diffs):
    """field-by-field comparison; containers structurally, tokens by a solver obligation `original == loaded` (collected in EQS)"""
    if isinstance(a, S) or isinstance(b, S):
        if not (isinstance(a, S) and isinstance(b, S)):
            diffs.append(f"{path}: {a!r} != {b!r}")
        else:
            EQS.append((path, a, b))
        return
    if isinstance(a, np.ndarray) or isinstance(b, np.ndarray):
        a_, b_ = np.asarray(a, dtype=object), np.asarray(b, dtype=object)
        if a_.shape != b_.shape:
            diffs.append(f"{path}: shape {a_.shape} != {b_.shape}")
            return
        for idx in np.ndindex(a_.shape):
            same(a_[idx], b_[idx], f"{path}{list(idx)}", diffs)
        return
    if isinstance(a, dict) and isinstance(b, dict):
        if list(a.keys()) != list(b.keys()):
            if sorted(map(str, a.keys())) != sorted(map(str, b.keys())):
                diffs.append(f"{path}: keys {list(a.keys())} != {list(b.keys())}")
                return
        for k in a:
            same(a[k], b[k], f"{path}.{k}", diffs)
        return
    if isinstance(a, (list, tuple)) and isinstance(b, (list, tuple)):
        if len(a) != len(b):
            diffs.append(f"{path}: length {len(a)} != {len(b)}")
            return
        for i, (x, y) in enumerate(zip(a, b)):
            same(x, y, f"{path}[{i}]", diffs)
        return
    if a != b or (type(a) != type(b) and not (isinstance(a, (int, float)) and isinstance(b, (int, float)))):
        diffs.append(f"{path}: {a!r} != {b!r}")


def compare_outputs(o1, o2):
    from yadism.esf.result import ESFResult, EXSResult

    diffs = []
    same(o1.theory, o2.theory, "theory", diffs)
    same(o1.observables, o2.observables, "observables", diffs)
    if sorted(o1.keys()) != sorted(o2.keys()):
        diffs.append(f"keys {sorted(o1.keys())} != {sorted(o2.keys())}")
        return diffs
    for k in o1:
        a, b = o1[k], o2[k]
        if isinstance(a, list) and all(isinstance(r, ESFResult) for r in a) and (a or isinstance(b, list)):
            if not isinstance(b, list) or len(a) != len(b):
                diffs.append(f"{k}: {len(a)} points vs {b if not isinstance(b, list) else len(b)}")
                continue
            for i, (ra, rb) in enumerate(zip(a, b)):
                if type(ra) is not type(rb):
                    diffs.append(f"{k}[{i}]: {type(ra).__name__} became {type(rb).__name__}")
                    continue
                for attr in ("x", "Q2", "nf") + (("y",) if isinstance(ra, EXSResult) else ()):
                    same(getattr(ra, attr), getattr(rb, attr), f"{k}[{i}].{attr}", diffs)
                if list(ra.orders.keys()) != list(rb.orders.keys()):
                    diffs.append(f"{k}[{i}]: order keys {list(ra.orders)} != {list(rb.orders)}")
                    continue
                for o in ra.orders:
                    same(ra.orders[o][0], rb.orders[o][0], f"{k}[{i}].{o}.values", diffs)
                    same(ra.orders[o][1], rb.orders[o][1], f"{k}[{i}].{o}.errors", diffs)
        else:
            same(a, b, k, diffs)
    return diffs


def edit_values(out, mk):
    """in-place edit of an output's numbers after a first dump: the first entry of every tensor gets a new value, arrays under the
    last order key are replaced by new arrays (keys, shapes and kinematics stay)"""
    for k, v in list(out.items()):
        if not (isinstance(v, list) and v and hasattr(v[0], "orders")):
            continue
        for i, r in enumerate(v):
            keys = list(r.orders)
            for o in keys:
                val, err = r.orders[o]
                if o == keys[-1]:
                    val, err = val.copy(), err.copy()
                    r.orders[o] = (val, err)
                val[0, 0] = mk(f"edited|{k}[{i}].{o}.v")
                err[0, 0] = mk(f"edited|{k}[{i}].{o}.e")


def roundtrip(shape, fmt, mk):
    """returns list of differences (empty = lossless) for dump/load in `fmt` ('yaml', 'tar', 'yaml+tar', 'tar+yaml', ...)"""
    from yadism import output as outmod
    from yadism.esf import result as resmod

    fs, yml, FakePathlib, FakeTempfile, FakeTarfile, npio = make_env()
    out = make_output(mk, shape)
    ref = make_output(mk, shape)  # an independent twin with the same tokens
    with npshim.patched((outmod, "yaml", yml), (outmod, "pathlib", FakePathlib), (outmod, "tempfile", FakeTempfile),
                        (outmod, "tarfile", FakeTarfile), (outmod, "np", npio), (resmod, "np", npio)):
        setattr(resmod, "float", ident)
        setattr(resmod, "int", lambda v: v if isinstance(v, S) or v is None and (_ for _ in ()).throw(TypeError()) else int(v))
        try:
            # history: ANOTHER output has been written to and read from the very same location before (a path is a name, not an identity)
            prev = make_output(lambda n: mk("prev|" + n), [("F2_total", 2, 2, 4), ("XSHERANC_total", 1, 1, None)])
            if fmt.split("+")[0] == "tar":
                prev.dump_tar("/fake/out.tar")
                outmod.Output.load_tar("/fake/out.tar")
            else:
                st0 = Stream()
                prev.dump_yaml(st0)
                outmod.Output.load_yaml(st0)
            # ... and the object under test has been dumped once before its numbers were last edited (same order keys, new values)
            if fmt.split("+")[0] == "tar":
                out.dump_tar("/fake/out.tar")
            else:
                out.dump_yaml(Stream())
            edit_values(out, mk)
            edit_values(ref, mk)
            cur = out
            for step in fmt.split("+"):
                if step == "yaml":
                    st = Stream()
                    cur.dump_yaml(st)
                    cur = outmod.Output.load_yaml(st)
                else:
                    cur.dump_tar("/fake/out.tar")
                    cur = outmod.Output.load_tar("/fake/out.tar")
            # a loaded object owns its data: loading ANOTHER output afterwards (same process, same format) must not change it
            other = make_output(lambda n: mk("other|" + n), [("F2_total", 1, 1, 4)])
            if fmt.split("+")[-1] == "yaml":
                st = Stream()
                other.dump_yaml(st)
                outmod.Output.load_yaml(st)
            else:
                other.dump_tar("/fake/other.tar")
                outmod.Output.load_tar("/fake/other.tar")
        finally:
            delattr(resmod, "float")
            delattr(resmod, "int")
    del EQS[:]
    d = compare_outputs(ref, cur)
    d2 = compare_outputs(ref, out)  # dumping must not modify the object being dumped
    eqs = list(EQS)
    del EQS[:]
    return d + [f"dump modified its input: {x}" for x in d2], eqs


def replay_roundtrip(args):
    """concrete replay with REAL PyYAML / NumPy / tarfile on disk"""
    import tempfile

    from yadism import output as outmod

    vals = {}

    def mk(name):
        if name not in vals:
            # distinct values of both signs (errors of cross sections are signed linear combinations)
            vals[name] = (float(len(vals) + 1) + 0.1) * (-1 if len(vals) % 3 == 2 else 1)  # not representable in float32
        return vals[name]

    shape = [tuple(s) for s in args["shape"]]
    out = make_output(mk, shape)
    ref = make_output(mk, shape)
    for o in (out, ref):
        for k, v in list(o.items()):
            if isinstance(v, list) and v and hasattr(v[0], "orders"):
                for r in v:
                    for key in r.orders:
                        r.orders[key] = tuple(np.array(t, dtype=float) for t in r.orders[key])
    def floats(o):
        for k, v in list(o.items()):
            if isinstance(v, list) and v and hasattr(v[0], "orders"):
                for r in v:
                    for key in r.orders:
                        r.orders[key] = tuple(np.array(t, dtype=float) for t in r.orders[key])
        return o

    try:
        cur = out
        with tempfile.TemporaryDirectory(dir="/var/tmp") as d:
            # the same history as in the symbolic run: another output at the same location first, a first dump before the last edit
            first = args["fmt"].split("+")[0]
            prev = floats(make_output(lambda n: mk("prev|" + n), [("F2_total", 2, 2, 4), ("XSHERANC_total", 1, 1, None)]))
            if first == "tar":
                prev.dump_tar(f"{d}/out.tar")
                outmod.Output.load_tar(f"{d}/out.tar")
                out.dump_tar(f"{d}/out.tar")
            else:
                outmod.Output.load_yaml(prev.dump_yaml())
                out.dump_yaml()
            edit_values(out, mk)
            edit_values(ref, mk)
            for i, step in enumerate(args["fmt"].split("+")):
                if step == "yaml":
                    cur = outmod.Output.load_yaml(cur.dump_yaml())
                else:
                    cur.dump_tar(f"{d}/out.tar")
                    cur = outmod.Output.load_tar(f"{d}/out.tar")
            other = floats(make_output(lambda n: mk("other|" + n), [("F2_total", 1, 1, 4)]))
            if args["fmt"].split("+")[-1] == "yaml":
                outmod.Output.load_yaml(other.dump_yaml())
            else:
                other.dump_tar(f"{d}/other.tar")
                outmod.Output.load_tar(f"{d}/other.tar")
    except Exception as e:  # noqa
        return True, f"shape {shape} via {args['fmt']}: {type(e).__name__}: {e}"
    del EQS[:]
    diffs = compare_outputs(ref, cur)
    return (True, f"shape {shape} via {args['fmt']}: {diffs[:4]}") if diffs else (False, "lossless with the real libraries")


REPLAYERS = {"roundtrip": replay_roundtrip}


def shapes(tier):
    pts = [None, 0, 1, 2]
    out = []
    for p1, p2 in itertools.product(pts, pts):
        for nord, nf in itertools.product([1, 2, 3, 4], [None, 4]):
            if tier == "quick" and (str(p1) + str(p2) + str(nord) + str(nf)).__hash__() % 3 and not (p1 == 0 or p2 == 0 or p1 is None):
                continue
            out.append([("F2_total", p1, nord, nf), ("XSHERANC_total", p2, max(1, nord - 1), nf)])
    out.append([("F2_total", 2, 2, 4)])
    out.append([("XSCHORUSCC_charm", 1, 1, None)])
    # cross-section kinds whose name does not start with XS, next to structure functions
    for k in ("FW_total", "F1_total", "g5_light"):
        out.append([(k, 2, 3, 4), ("g1_total", 1, 4, None)])
        out.append([(k, 1, 4, None)])
    # two admissible spellings of one observable (bare kind = kind_total) are two independent keys of an Output
    out.append([("F2", 1, 2, 4), ("F2_total", 2, 1, None)])
    out.append([("XSHERANC_total", 2, 2, 4), ("XSHERANC", 1, 1, None)])
    out.append([("F2_charm", 1, 1, 4), ("F2_light", 2, 2, 4), ("F2", 1, 3, None)])
    # cross sections whose points all have y = 0.0 (falsy kinematics are still kinematics)
    out.append([("XSHERANC_total", 2, 2, 0), ("F2_total", 1, 1, 4)])
    out.append([("XSCHORUSCC_light", 1, 1, 0)])
    out.append([])
    return out


def run(chk, only=None):
    from yadism import output as outmod
    from yadism.esf import result as resmod

    chk.encode(outmod.Output.get_raw, outmod.Output.dump_yaml, outmod.Output.load_yaml, outmod.Output.dump_tar, outmod.Output.load_tar,
               resmod.ESFResult.get_raw, resmod.ESFResult.from_document, resmod.EXSResult.get_raw, resmod.EXSResult.from_document)
    chk.bounds = {"observables": "<= 3 (SF and XS kinds, bare and _total spellings side by side) + metadata", "points per observable": "{None, 0, 1, 2}", "orders": "1..3 keys",
                  "tensors": "2x2 of symbolic tokens", "nf": "{None, int}", "formats": "yaml, tar, yaml+tar, tar+yaml, yaml+yaml, tar+tar"}
    chk.stub("yaml.(safe_)dump/(safe_)load -> identity on YAML-native data, NotYamlNative error on anything else",
             "np.savez_compressed/np.load, tarfile, tempfile, pathlib -> in-memory store", "float()/int() in result.py -> identity on tokens")
    chk.assume("byte-level fidelity of PyYAML/NumPy is a contract; cards containing non-YAML types are outside")
    fmts = ["yaml", "tar", "yaml+tar", "tar+yaml", "yaml+yaml", "tar+tar"]
    allshapes = shapes(chk.tier)
    with Ctx(chk.seed) as ctx:
        toks = {}

        def mk(name):
            if name not in toks:
                toks[name] = ctx.var("tok|" + name, None, None)
            return toks[name]

        neqs = 0
        for shape, fmt in itertools.product(allshapes, fmts):
            if chk.tier == "quick" and fmt in ("yaml+yaml", "tar+tar") and len(shape) == 2 and (shape[0][1] or 0) + (shape[1][1] or 0) > 1:
                continue
            cname = f"roundtrip:{fmt}:{[(n, p, o, f) for n, p, o, f in shape]}"
            chk.obligations += 1
            chk.evaluations += 1
            chk.nontrivial.add(cname)
            args = dict(shape=[list(s) for s in shape], fmt=fmt)
            empties = [n for n, p, _, _ in shape if p == 0]
            key = f"roundtrip:{fmt.split('+')[0]}:{'empty-observable' if empties else 'data'}"
            try:
                diffs, eqs = roundtrip(shape, fmt, mk)
            except Exception as e:  # noqa
                chk.report(key, f"{cname}: raises {type(e).__name__}: {str(e)[:120]}", "roundtrip", args)
                continue
            if not diffs and eqs:
                # the deciding step: is there a valuation of the tokens under which a loaded number differs from the original?
                v = chk.prover.prove(z3.And(*[a.t == b.t for _, a, b in eqs]), (), cname)
                chk.evaluations += 1
                neqs += len(eqs)
                if v.status != "unsat":
                    bad = [pth for pth, a, b in eqs if not a.t.eq(b.t)][:3]
                    if v.status == "unknown":
                        chk.inconclusive.append(f"{cname}: solver returned unknown")
                        continue
                    diffs = [f"{pth}: loaded number is not the original one" for pth in bad] or ["solver model separates loaded and original"]
            if diffs:
                chk.report(key, f"{cname}: loaded output differs: {diffs[:3]}", "roundtrip", args)
            else:
                chk.discharged += 1
                if len(chk.samples) < 3:
                    chk.sample({"shape": str(shape), "format": fmt, "token equalities": len(eqs),
                                "verdict": "unsat: no valuation of the tokens separates load(dump(o)) from o"})
    chk.section("lattice", shapes=len(allshapes), formats=len(fmts), token_equalities_decided_by_solver=neqs)
    chk.exhaustive = chk.tier == "thorough"
    return chk.finish(
        explanation="The real dump/load code of Output and ESFResult/EXSResult runs on outputs whose numbers are symbolic tokens, with "
        "PyYAML/NumPy-npz/tarfile/tempfile/pathlib replaced by in-memory contracts; for every structure in the enumerated lattice "
        "(None/empty/1/2 points, SF and XS, 1..3 order keys, nf None/int) and every format chain the loaded object is compared field "
        "by field (kinematics, order keys and their order, values, errors, grid, pids, projectile, cards) on the tokens' terms, and "
        "the dumped object must be unchanged. Failures are replayed with the real libraries on disk.",
        rule="one obligation per (structure, format chain); distinct = the pair; non-trivial = tokens flow through the code",
    )
