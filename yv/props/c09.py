"""C09 -- heavy-quark production respects its kinematic threshold.

Every heavy NC channel class (found by introspection) is constructed through its real constructor on
symbolic x, Q2, m2 and every order method / integrand closure is explored path by path; LeProHQ, adani
and the tabulated N3LO coefficients are unconstrained atoms, so a zero can only come from yadism's own
guards.  CC: the convolution point and the empty-domain exit of conv.convolution.
"""

import math

import numpy as np
import z3

from yv.engine import explore, harness, real, stubs
from yv.engine.real import S, Ctx
from yv.props import common as cm


def heavy_nc_classes():
    from yadism.coefficient_functions.heavy import partonic_channel as hpc

    out = []
    for mname, mod in cm.family_modules("heavy"):
        if isinstance(mod, Exception) or not mname.endswith("_nc"):
            continue
        for cname, cls in cm.channel_classes(mod):
            if issubclass(cls, hpc.NeutralCurrentBase):
                out.append((mname, cname, cls))
    return out


def heavy_cc_classes():
    from yadism.coefficient_functions.heavy import partonic_channel as hpc

    out = []
    for mname, mod in cm.family_modules("heavy"):
        if isinstance(mod, Exception) or not mname.endswith("_cc"):
            continue
        for cname, cls in cm.channel_classes(mod):
            if issubclass(cls, hpc.ChargedCurrentBase):
                out.append((mname, cname, cls))
    return out


def _is_zero(v):
    if isinstance(v, S):
        return v.const is not None and v.const == 0
    return isinstance(v, (int, float)) and v == 0


def examine_nc(ctx, cls, nf, order):
    """Runs inside the explorer: returns what the class produced on this path."""
    x = ctx.var("x", 0, 1)
    z = ctx.var("z", 0, 1)
    Q2 = ctx.var("Q2", 0, None, wlo=1, whi=60)
    m2 = ctx.var("m2", 0, None, wlo=1, whi=30)
    kw = {}
    import inspect

    if "n3lo_cf_variation" in inspect.signature(cls.__init__).parameters or any(
            "n3lo_cf_variation" in inspect.signature(b.__init__).parameters for b in cls.__mro__ if "__init__" in vars(b) and b is not object):
        kw["n3lo_cf_variation"] = 0
    obj = cls(cm.StubESF(x, Q2, "NC", cm.Info()), nf, m2hq=m2, **kw)
    rsl = obj[order]()
    if rsl is None:
        return None
    rec = dict(empty=rsl.reg is None and rsl.sing is None and rsl.loc is None, x=x, z=z, Q2=Q2, m2=m2, parts={})
    for part in ("reg", "sing"):
        f = getattr(rsl, part)
        if f is not None:
            rec["parts"][part] = f(z, rsl.args[part])
    return rec


def float_nc(args):
    import importlib

    mod = importlib.import_module(args["module"])
    cls = getattr(mod, args["cls"])
    kw = {}
    try:
        obj = cls(cm.StubESF(args["x"], args["Q2"], "NC", cm.Info()), args["nf"], m2hq=args["m2"], n3lo_cf_variation=0)
    except TypeError:
        obj = cls(cm.StubESF(args["x"], args["Q2"], "NC", cm.Info()), args["nf"], m2hq=args["m2"])
    return obj[args["order"]]()


def replay_hadronic(args):
    rsl = float_nc(args)
    if rsl is None:
        return False, "no RSL"
    below = args["Q2"] * (1 - args["x"]) / args["x"] <= 4 * args["m2"]
    empty = rsl.reg is None and rsl.sing is None and rsl.loc is None
    if below and not empty:
        return True, f"x={args['x']}, Q2={args['Q2']}, m2={args['m2']}: W^2 at/below threshold but a coefficient is returned"
    return False, f"below={below} empty={empty}"


def replay_partonic(args):
    rsl = float_nc(args)
    if rsl is None or getattr(rsl, args["part"]) is None:
        return False, "no such part"
    z = args["z"]
    below = args["Q2"] * (1 - z) / z <= 4 * args["m2"]
    try:
        v = float(getattr(rsl, args["part"])(z, rsl.args[args["part"]]))
    except Exception as e:  # noqa
        return below, f"integrand raised {e!r} at z={z}"
    if below and v != 0.0:
        return True, f"{args['part']}(z={z}) = {v} although Q2(1-z)/z = {args['Q2'] * (1 - z) / z} <= 4 m2 = {4 * args['m2']}"
    return False, f"below={below} value={v}"


def replay_cc_point(args):
    import importlib

    mod = importlib.import_module(args["module"])
    cls = getattr(mod, args["cls"])
    obj = cls(cm.StubESF(args["x"], args["Q2"], "CC", cm.Info()), args["nf"], m2hq=args["m2"])
    chi = obj.convolution_point()
    ref = args["x"] * (1 + args["m2"] / args["Q2"])
    if abs(chi - ref) > 1e-12 * abs(ref):
        return True, f"convolution point {chi} != x(1+m2/Q2) = {ref}"
    return False, "equal"


class _PDF:
    """minimal stand-in for a basis function (never reached when the domain is empty)."""

    areas = []
    _mode_log = False
    areas_representation = None

    def is_below_x(self, x):
        return False

    def __call__(self, x):
        return 1.0


def replay_empty_domain(args):
    from yadism.coefficient_functions.partonic_channel import RSL
    from yadism.esf import conv

    calls = []
    rsl = RSL(lambda z, a: calls.append(z) or 1.0, args=[])
    try:
        r = conv.convolution(rsl, args["chi"], _PDF())
    except Exception as e:  # noqa
        return True, f"raised {e!r} for chi={args['chi']}"
    if args["chi"] >= 1 - conv.eps_integration_border and (r[0] != 0.0 or r[1] != 0.0):
        return True, f"chi={args['chi']} >= 1-eps but convolution returned {r}"
    return False, f"returned {r}"


def replay_wiring(args):
    """floats: three well separated masses; the heavy component's kernels must carry the mass of their own flavour"""
    import yadism.coefficient_functions as cf

    m2 = [2.0, 20.0, 30000.0]
    Q2 = 70.0
    cc = cm.make_coupling(cm.ew_params(values={}), args["proc"], 12 if args["proc"] == "CC" else 11)
    cfg = cm.make_configs(cc, pto=args["pto"], pto_evol=min(args["pto"], 2), scheme=args["sch"], nf_ff=args["nf"], ZMq=tuple(args["zm"]),
                          m2hq=m2, threshold=args["nf"])
    with cm.fixed_nf():
        esf_ = cm.make_esf(cfg, f"{args['kind']}_{args['flav']}", 0.1, Q2)
        comps = cf.Combiner(esf_).collect()
    want = dict(charm=m2[0], bottom=m2[1], top=m2[2])
    bad = []
    for comp in comps:
        if comp.heavy == "light":
            continue
        for k in comp:
            c = k.coeff
            vals_ = []
            for a in ("m2hq", "m1sq", "m2sq"):
                if hasattr(c, a):
                    vals_.append((a, getattr(c, a)))
            if hasattr(c, "labda") and not hasattr(c, "m2hq"):
                vals_.append(("labda", Q2 / c.labda - Q2))
            if hasattr(c, "L") and not vals_:
                vals_.append(("L", Q2 / math.exp(c.L)))
            for a, v in vals_:
                if abs(v - want[comp.heavy]) > 1e-9 * want[comp.heavy]:
                    bad.append((comp.heavy, type(c).__name__, a, v))
    return (True, f"{args['kind']}_{args['flav']} {args['proc']} {args['sch']} nf={args['nf']}: {bad[:4]}") if bad else (False, "masses wired correctly")


ESF_CELLS = [
    dict(name="F2_charm NC FFNS3 pto1", obs="F2_charm", process="NC", pid=11, scheme="FFNS", nf=3, ZMq=(False, False, False), pto=1),
    dict(name="F2_total NC FFNS3 pto2", obs="F2_total", process="NC", pid=11, scheme="FFNS", nf=3, ZMq=(False, False, False), pto=2),
    dict(name="FL_light EM FFNS3 pto2", obs="FL_light", process="EM", pid=11, scheme="FFNS", nf=3, ZMq=(False, False, False), pto=2),
    dict(name="F2_charm NC FONLL pto1", obs="F2_charm", process="NC", pid=11, scheme="FONLL-FFNS", nf=3, ZMq=(False, True, True), pto=1),
    dict(name="g1_charm NC FFNS3 pto1", obs="g1_charm", process="NC", pid=11, scheme="FFNS", nf=3, ZMq=(False, False, False), pto=1),
    # charged current: no pair threshold, but every heavy channel (also the LO delta) is convolved at the slow-rescaling point
    dict(name="F2_charm CC FFNS3 pto1", obs="F2_charm", process="CC", pid=12, scheme="FFNS", nf=3, ZMq=(False, False, False), pto=1, cc=True),
    dict(name="F3_total CC FFNS3 pto0", obs="F3_total", process="CC", pid=-12, scheme="FFNS", nf=3, ZMq=(False, False, False), pto=0, cc=True),
]


CHI_LOG = []  # (class, order, convolution point handed to the quadrature, mass) of the last esf_heavy_nc_calls


def esf_heavy_nc_calls(ctx, cell, x, Q2, m2c):
    """Real ESF.compute_local (quadrature recorded): the RSLs that are actually convolved for heavy-quark NC pair-production channels."""
    import yadism.coefficient_functions as cf
    from yv.props import c01

    e, records, basis = c01.run_assembly(ctx, cell, cm.ew_params(values={}), x, Q2, m2c, "t")
    del CHI_LOG[:]
    out, ri = [], 0
    for k in cf.Combiner(e).collect_elems():
        for o in e.orders:
            if not k.has_order(o):
                continue
            if k.coeff[o]() is None:
                continue
            for _ in basis:
                if ri >= len(records):
                    out.append((type(k.coeff), o, None, None))
                    continue
                out.append((type(k.coeff), o, records[ri]["rsl"], getattr(k.coeff, "m2hq", None)))
                CHI_LOG.append((type(k.coeff), o, records[ri]["chi"], getattr(k.coeff, "m2hq", None)))
                ri += 1
    return out, len(records) == ri


def replay_esf_threshold(args):
    cell = [c for c in ESF_CELLS if c["name"] == args["cell"]][0]
    with cm.fixed_nf():
        # the symbolic run serves all paths of a cell with the same (symbolic) Q2 and masses: like a run with several points at one Q2.
        # Replay that history too: points well above the pair thresholds first (same Q2, same masses), then the point itself
        # (on code without hidden state the earlier points change nothing).
        for x_hist in (0.011, 0.5 * args["Q2"] / (args["Q2"] + 4 * args["m2c"])):
            try:
                esf_heavy_nc_calls(None, cell, x_hist, args["Q2"], args["m2c"])
            except ValueError:
                pass
        calls, _ = esf_heavy_nc_calls(None, cell, args["x"], args["Q2"], args["m2c"])
    bad = _esf_bad(calls, args)
    w2 = args["Q2"] * (1 - args["x"]) / args["x"]
    if bad:
        return True, f"{cell['name']} at x={args['x']}, Q2={args['Q2']}, m2c={args['m2c']} (W^2={w2:g} <= 4m^2): the ESF convolves {bad[:4]}"
    return False, "nothing convolved below the threshold"


def replay_esf_complete(args):
    """float run of the real compute_local: every (kernel, order) with a coefficient function is handed to the convolution, heavy CC channels at x(1+m2/Q2)"""
    cell = [c for c in ESF_CELLS if c["name"] == args["cell"]][0]
    with cm.fixed_nf():
        calls, complete = esf_heavy_nc_calls(None, cell, args["x"], args["Q2"], args["m2c"])
        log = list(CHI_LOG)
    if not complete or any(rsl is None for _, _, rsl, _ in calls):
        return True, (f"{cell['name']} at x={args['x']}, Q2={args['Q2']}, m2c={args['m2c']}: compute_local hands {sum(r is not None for _, _, r, _ in calls)} coefficient functions to the "
                      f"convolution, the kernel list has {len(calls)} (a contribution is assembled without the convolution at its evaluation point)")
    for c, o, chi, m2 in log:
        if m2 is not None and ".heavy." in c.__module__ and c.__module__.endswith("_cc"):
            want = args["x"] * (1 + float(m2) / args["Q2"])
            if abs(float(chi) - want) > 1e-12 * want:
                return True, f"{cell['name']}: {c.__name__}/o{o} convolved at {float(chi)!r}, slow-rescaling point is {want!r}"
    return False, "every coefficient function is convolved, heavy CC ones at x(1+m2/Q2)"


def _esf_bad(calls, args):
    w2 = args["Q2"] * (1 - args["x"]) / args["x"]
    bad = [f"{c.__module__.split('.')[-1]}.{c.__name__}/o{o} (m2={float(m2):g})" for c, o, rsl, m2 in calls
           if rsl is not None and m2 is not None and ".heavy." in c.__module__ and c.__module__.endswith("_nc")
           and not (rsl.reg is None and rsl.sing is None and rsl.loc is None) and w2 <= 4 * float(m2)]
    return bad


REPLAYERS = {"esf_complete": replay_esf_complete, "esf_threshold": replay_esf_threshold, "wiring": replay_wiring, "hadronic": replay_hadronic, "partonic": replay_partonic, "cc_point": replay_cc_point,
             "empty_domain": replay_empty_domain}


def vals(ctx, model, names=("x", "z", "Q2", "m2")):
    asg = explore.model_to_assign(ctx, model)
    return {k: float(asg.get(k, ctx.assign.get(k, 0.5))) for k in names}


SHARDABLE = True


def run(chk, only=None):
    from yadism.coefficient_functions.heavy import partonic_channel as hpc
    from yadism.esf import conv

    from yadism.esf import esf as _esfmod

    chk.encode(_esfmod.EvaluatedStructureFunction.compute_local)
    chk.encode(hpc.NeutralCurrentBase.__init__, hpc.NeutralCurrentBase.decorator, hpc.NeutralCurrentBase.is_below_pair_threshold,
               hpc.ChargedCurrentBase.__init__, hpc.ChargedCurrentBase.convolution_point, conv.convolution)
    chk.bounds = {"x, z": "(0,1)", "Q2, m2": "> 0", "nf": "3..5 (4 in quick)", "orders": "0..3", "paths": "<= 64 per (class, order)"}
    chk.stub("LeProHQ.*, adani.*, heavy.n3lo.interpolator(...) -> unconstrained atoms (uninterpreted functions of their numeric "
             "arguments): a zero can only come from yadism's guard", "scipy.integrate.quad is never reached on the asserted paths")
    nfs = [4] if chk.tier == "quick" else [3, 4, 5]
    classes = heavy_nc_classes()
    ncls = 0
    for mname, cname, cls in classes:
        chk.encode(cls)
        for nf in nfs:
            for order in range(4):
                if not chk.mine(f"{mname}.{cname}/{nf}/{order}"):
                    continue
                with Ctx(chk.seed) as ctx, stubs.cf_stubs():
                    try:
                        ex = explore.Explorer(ctx, max_paths=64, timeout_ms=5000)
                        paths = ex.run(lambda: examine_nc(ctx, cls, nf, order))
                    except Exception as e:  # noqa
                        chk.inconclusive_note(f"heavy.{mname}.{cname}/o{order}: harness exception {e!r}")
                        continue
                    chk.paths += len(paths)
                    if ex.bound_hit:
                        chk.inconclusive_note(f"heavy.{mname}.{cname}/o{order}: path bound hit")
                    base = dict(module=cls.__module__, cls=cname, nf=nf, order=order)
                    for i, p in enumerate(paths):
                        ctx.assign = dict(p.assign)
                        lab = f"heavy.{mname}.{cname}/nf{nf}/o{order}/path{i}"
                        if p.kind == "exc":
                            if isinstance(p.value, (real.NotEncodable, real.Concretised)):
                                chk.inconclusive_note(f"{lab}: not encodable: {p.value}")
                            else:
                                chk.notes.append(f"{lab}: raises {type(p.value).__name__}: {str(p.value)[:80]} (C16)")
                            continue
                        rec = p.value
                        if rec is None:
                            continue
                        ncls += 1
                        facts = ctx.facts() + p.pc
                        x, z, Q2, m2 = rec["x"], rec["z"], rec["Q2"], rec["m2"]
                        if not rec["empty"]:
                            # a coefficient function is handed out: the hadronic system must be above the pair threshold
                            chk.prove(lab + ":hadronic threshold", (Q2 * (1 - x) / x).t > (4 * m2).t, facts,
                                      key=f"hadronic:{mname}.{cname}:o{order}",
                                      replay=lambda m, ctx=ctx, base=base: ("hadronic", dict(base, **vals(ctx, m))),
                                      what=f"{lab}: coefficient returned at or below the hadronic pair threshold")
                        else:
                            chk.section("paths", empty_rsl=1)
                        for part, v in rec["parts"].items():
                            if _is_zero(v):
                                chk.section("paths", zero_integrand=1)
                                continue
                            chk.section("paths", nonzero_integrand=1)
                            chk.prove(lab + f":{part}: partonic threshold", (Q2 * (1 - z) / z).t > (4 * m2).t, facts,
                                      key=f"partonic:{mname}.{cname}:o{order}:{part}",
                                      replay=lambda m, ctx=ctx, base=base, part=part: ("partonic", dict(base, part=part, **vals(ctx, m))),
                                      what=f"{lab}: integrand {part}(z) not forced to zero beyond the partonic threshold")
    chk.section("inventory", heavy_nc_classes=len(classes), rsl_paths=ncls)
    # ---- the threshold is the one of the RIGHT quark: mass wiring through the real Combiner / kernel generators ----
    if only in (None, "wiring"):
        import itertools

        cells = list(itertools.product(["F2", "FL", "F3", "g1"], ["total", "charm", "bottom", "top"], ["EM", "NC", "CC"],
                                       [("FFNS", 3, (False, False, False)), ("FFNS", 4, (True, False, False)), ("FFN0", 3, (False, False, False)),
                                        ("FONLL-FFNS", 4, (True, False, True))], [1, 2]))
        nw = 0
        for kind, flav, proc, (sch, nf, zm), pto in cells:
            if proc == "CC" and kind == "g1":
                continue
            if chk.tier == "quick" and (len(kind) + len(flav) + len(proc) + nf + pto + len(sch)) % 3:
                continue
            cname = f"wiring:{kind}_{flav}/{proc}/{sch}/nf{nf}/pto{pto}"
            if not chk.mine(cname):
                continue
            with Ctx(chk.seed) as ctx, cm.fixed_nf(), stubs.cf_stubs():
                def body(kind=kind, flav=flav, proc=proc, sch=sch, nf=nf, zm=zm, pto=pto):
                    import yadism.coefficient_functions as cf

                    Q2 = ctx.var("Q2", 0, None, wlo=50, whi=90)
                    m2 = [ctx.var("m2c", 0, None, wlo=1, whi=3), ctx.var("m2b", 0, None, wlo=15, whi=25), ctx.var("m2t", 0, None, wlo=200, whi=300)]
                    cc = cm.make_coupling(cm.ew_params(values={}), proc, 12 if proc == "CC" else 11)
                    cfg = cm.make_configs(cc, pto=pto, pto_evol=min(pto, 2), scheme=sch, nf_ff=nf, ZMq=zm, m2hq=m2, threshold=nf)
                    esf_ = cm.make_esf(cfg, f"{kind}_{flav}", 0.1, Q2)
                    out = []
                    for comp in cf.Combiner(esf_).collect():
                        for k in comp:
                            out.append((comp.heavy, k, Q2, m2))
                    return out

                ex = explore.Explorer(ctx, max_paths=16, timeout_ms=3000)
                paths = ex.run(body)
                chk.paths += len(paths)
                for i, p in enumerate(paths):
                    ctx.assign = dict(p.assign)
                    if p.kind == "exc":
                        chk.notes.append(f"{cname}/path{i}: raises {type(p.value).__name__}: {str(p.value)[:80]} (C16)")
                        continue
                    light_missing = []
                    for comp_name, k, Q2, m2 in p.value:
                        c = k.coeff
                        mod = type(c).__module__
                        masses = {"charm": m2[0], "bottom": m2[1], "top": m2[2]}
                        got = []
                        if hasattr(c, "m2hq"):
                            got.append(("m2hq", c.m2hq))
                        if hasattr(c, "m1sq"):
                            got.append(("m1sq", c.m1sq))
                        if hasattr(c, "m2sq"):
                            got.append(("m2sq", c.m2sq))
                        if hasattr(c, "labda") and not hasattr(c, "m2hq"):
                            got.append(("Q2/labda-Q2", Q2 / c.labda - Q2))
                        if hasattr(c, "L") and not hasattr(c, "m2hq"):
                            pass  # asymptotic classes keep only L = log(Q2/m2): compared below through the atom
                        if comp_name == "light":
                            if got:
                                light_missing.append((type(c).__name__, got))
                            continue
                        want = masses[comp_name]
                        for nm, v in got:
                            nw += 1
                            chk.prove(f"{cname}/path{i}: {type(c).__name__}.{nm} is the {comp_name} mass", S.lift(v).t == want.t, ctx.facts() + p.pc,
                                      key=f"wiring:{mod.split('.')[-2]}.{type(c).__name__}:{comp_name}",
                                      replay=lambda m_, kind=kind, flav=flav, proc=proc, sch=sch, nf=nf, zm=zm, pto=pto, comp_name=comp_name, cn=type(c).__name__, nm=nm:
                                      ("wiring", dict(kind=kind, flav=flav, proc=proc, sch=sch, nf=nf, zm=list(zm), pto=pto, comp=comp_name, cls=cn, attr=nm)),
                                      what=f"{cname}: the {comp_name} contribution is computed with another quark's mass ({type(c).__name__}.{nm})")
                        if hasattr(c, "L") and not got:
                            nw += 1
                            chk.prove(f"{cname}/path{i}: {type(c).__name__}.L = log(Q2/m_{comp_name}^2)", S.lift(c.L).t == S.lift(np.log(Q2 / want)).t,
                                      ctx.facts() + p.pc, key=f"wiring:{mod.split('.')[-2]}.{type(c).__name__}:{comp_name}:L",
                                      replay=lambda m_, kind=kind, flav=flav, proc=proc, sch=sch, nf=nf, zm=zm, pto=pto, comp_name=comp_name, cn=type(c).__name__:
                                      ("wiring", dict(kind=kind, flav=flav, proc=proc, sch=sch, nf=nf, zm=list(zm), pto=pto, comp=comp_name, cls=cn, attr="L")),
                                      what=f"{cname}: asymptotic {comp_name} contribution uses another quark's mass")
        chk.section("wiring", cells=len(cells), mass_claims=nw)
    # ---- the guard is applied where the result is assembled: through the real ESF.compute_local ----
    if only in (None, "esf"):
        nclaims = 0
        for cell in ESF_CELLS:
            cname = f"esf:{cell['name']}"
            if not chk.mine(cname):
                continue
            with Ctx(chk.seed) as ctx, cm.fixed_nf(), cm.generic_drop_empty(), stubs.cf_stubs():
                def body(cell=cell):
                    x = ctx.var("x", 0, 1, wlo=0.02, whi=0.2)
                    Q2 = ctx.var("Q2", 0, None, wlo=30, whi=90)
                    m2c = ctx.var("m2c", 0, None, wlo=1, whi=3)
                    calls, complete = esf_heavy_nc_calls(ctx, cell, x, Q2, m2c)
                    return calls, complete, x, Q2, m2c, list(CHI_LOG)

                ex = explore.Explorer(ctx, max_paths=16, timeout_ms=5000)
                paths = ex.run(body)
                chk.paths += len(paths)
                seen = {"nonempty": 0, "empty": 0}
                for i, p in enumerate(paths):
                    ctx.assign = dict(p.assign)
                    if p.kind == "exc":
                        if not isinstance(p.value, ValueError):
                            chk.notes.append(f"{cname}/path{i}: raises {type(p.value).__name__}: {str(p.value)[:80]} (C16)")
                        continue
                    calls, complete, x, Q2, m2c, chilog = p.value
                    # completeness: the kernel list (recomputed through the real Combiner) and the coefficient functions handed to the convolution
                    # correspond one to one -- nothing is assembled without going through the convolution at its evaluation point
                    chk.obligations += 1
                    chk.evaluations += 1
                    rp_c = ("esf_complete", dict(cell=cell["name"], **vals(ctx, None, ("x", "Q2", "m2c"))))
                    if complete and all(rsl is not None for _, _, rsl, _ in calls):
                        chk.discharged += 1
                    else:
                        chk.report(f"esf:complete:{cell['name']}", f"{cname}/path{i}: compute_local does not hand every coefficient function of the kernel list to the convolution",
                                   *rp_c)
                        continue
                    for c, o, chi, m2 in chilog:
                        if m2 is not None and ".heavy." in c.__module__ and c.__module__.endswith("_cc"):
                            nclaims += 1
                            chk.prove(f"{cname}/path{i}: {c.__name__}/o{o} convolved at x(1+m2/Q2)", S.lift(chi).t == (x * (1 + S.lift(m2) / Q2)).t, ctx.facts() + p.pc,
                                      key=f"esf:ccpoint:{c.__name__}:o{o}", replay=lambda m, ctx=ctx, cell=cell: ("esf_complete", dict(cell=cell["name"], **vals(ctx, m, ("x", "Q2", "m2c")))),
                                      what=f"{cname}: compute_local convolves {c.__name__}/o{o} away from the slow-rescaling point")
                    for c, o, rsl, m2 in calls:
                        if rsl is None or m2 is None or not (".heavy." in c.__module__ and c.__module__.endswith("_nc")):
                            continue
                        if rsl.reg is None and rsl.sing is None and rsl.loc is None:
                            seen["empty"] += 1
                            continue
                        seen["nonempty"] += 1
                        nclaims += 1
                        chk.prove(f"{cname}/path{i}: {c.__name__}/o{o} convolved only above the hadronic threshold", (Q2 * (1 - x) / x).t > S.lift(4 * m2).t,
                                  ctx.facts() + p.pc, key=f"esf:{c.__module__.split('.')[-1]}.{c.__name__}:o{o}",
                                  replay=lambda m, ctx=ctx, cell=cell: ("esf_threshold", dict(cell=cell["name"], **{k: v for k, v in vals(ctx, m, ("x", "Q2", "m2c")).items()})),
                                  what=f"{cname}: compute_local convolves {c.__name__}/o{o} at or below the hadronic pair threshold")
                if not cell.get("cc") and not (seen["nonempty"] and seen["empty"]):
                    chk.inconclusive_note(f"{cname}: vacuity -- paths above/below the threshold not both reached ({seen})")
        chk.section("through_esf", cells=len(ESF_CELLS), claims=nclaims)
    # ---- charged current: slow rescaling point and empty domain ----
    if not chk.first:
        return chk.finish(explanation="shard of C09 (see the merged evidence)", rule="")
    for mname, cname, cls in heavy_cc_classes():
        chk.encode(cls)
        with Ctx(chk.seed) as ctx, stubs.cf_stubs():
            x = ctx.var("x", 0, 1)
            Q2 = ctx.var("Q2", 0, None, wlo=1, whi=60)
            m2 = ctx.var("m2", 0, None, wlo=1, whi=30)
            obj = cls(cm.StubESF(x, Q2, "CC", cm.Info()), 4, m2hq=m2)
            chi = obj.convolution_point()
            base = dict(module=cls.__module__, cls=cname, nf=4)
            chk.prove(f"heavy.{mname}.{cname}: convolution point = x(1+m2/Q2)", S.lift(chi).t == (x * (1 + m2 / Q2)).t, ctx.facts(),
                      key=f"ccpoint:{mname}.{cname}",
                      replay=lambda m, ctx=ctx, base=base: ("cc_point", dict(base, **vals(ctx, m, ("x", "Q2", "m2")))),
                      what=f"heavy.{mname}.{cname}: CC heavy production is not evaluated at the slow-rescaling variable")
    # empty domain of the convolution: chi >= 1 - eps  =>  exactly (0, 0), for any distribution and basis function
    with Ctx(chk.seed) as ctx:
        from yadism.coefficient_functions.partonic_channel import RSL

        def body():
            chi = ctx.var("chi", 0, None, wlo=0.5, whi=1.5)
            touched = []
            rsl = RSL(lambda z, a: touched.append("reg") or 1.0, lambda z, a: touched.append("sing") or 1.0,
                      lambda z, a: touched.append("loc") or 1.0, args=[])

            class PDF(_PDF):
                def is_below_x(self_, xx):
                    touched.append("is_below_x")
                    return True

            r = conv.convolution(rsl, chi, PDF())
            return chi, r, touched

        ex = explore.Explorer(ctx, max_paths=8)
        paths = ex.run(body)
        chk.paths += len(paths)
        eps = real.tofrac(conv.eps_integration_border)
        seen_empty = False
        for i, p in enumerate(paths):
            ctx.assign = dict(p.assign)
            if p.kind != "ok":
                chk.inconclusive_note(f"conv.convolution empty-domain probe raised {p.value!r}")
                continue
            chi, r, touched = p.value
            if "is_below_x" in touched:
                # the code went past the empty-domain exit: chi must be < 1 - eps
                chk.prove(f"conv.convolution/path{i}: domain entered only for chi < 1-eps", chi.t < real.zval(1 - eps),
                          ctx.facts() + p.pc, key="emptydomain",
                          replay=lambda m, ctx=ctx: ("empty_domain", dict(chi=vals(ctx, m, ("chi",))["chi"])),
                          what="conv.convolution integrates although the convolution point is >= 1 - eps")
            else:
                seen_empty = True
                ok = isinstance(r, tuple) and r[0] == 0.0 and r[1] == 0.0 and not touched
                chk.obligations += 1
                if ok:
                    chk.discharged += 1
                else:
                    chk.report("emptydomain", "empty convolution domain does not return (0,0)", "empty_domain",
                               dict(chi=float(p.assign.get("chi", 1.0))))
        if not seen_empty:
            chk.inconclusive_note("vacuity: the empty-domain exit of conv.convolution was never reached")
        else:
            chk.vacuity["reach_ok"] += 1
    with Ctx(chk.seed) as ctx:
        x = ctx.var("x", 0, 1)
        Q2 = ctx.var("Q2", 0, None)
        m2 = ctx.var("m2", 0, None)
        chk.expect_sat("domain", ctx.facts())
        chk.expect_sat("perturbed threshold (2m instead of 4m^2 differs)", ctx.facts() + [(Q2 * (1 - x) / x).t > (4 * m2).t,
                                                                                           (Q2 * (1 - x) / x).t <= (2 * m2 * m2).t],
                       what="perturbation")
    return chk.finish(
        explanation="Every heavy neutral-current channel class x order is built through its real constructor on symbolic x, Q2, m2 "
        "and explored path by path with the external libraries as unconstrained atoms. On each path z3 proves: a non-empty "
        "coefficient is only returned when Q2(1-x)/x > 4 m2; an integrand value that is not the literal zero only arises when "
        "Q2(1-z)/z > 4 m2. For charged currents the convolution point is proved equal to x(1+m2/Q2), and conv.convolution is "
        "shown to return exactly (0,0) without touching the integrand whenever that point is >= 1-eps.",
        rule="one obligation per (class, nf, order, path, part); distinct = (class, order, part); non-trivial = a symbolic guard on the path",
    )
