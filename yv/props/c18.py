"""C18 (partial) -- compiled kernels never read outside their argument arrays, and the modelled places where numba's typed
semantics leave the interpreter's are unreachable.

Bounds clause: for every RSL part of every channel class / splitting label / TMC kernel the
argument vector is the one the calling class really packs, wrapped in a bounds-recording array; the
kernel runs (Python semantics, JIT off) at a symbolic z, all feasible paths explored; every index
expression must satisfy 0 <= i < len.  In compiled mode a violation is a silent garbage read.

Typed-semantics clause (yv/engine/nbmodel.py): every @njit function of the current tree is instrumented (AST rewrite, code
swapped in place) so that the same symbolic runs -- plus runs of the special functions li2, s2, nielsen, wgplg on an
unrestricted symbolic argument -- record the events where typed code differs from the interpreter: lossy declared signature,
integer ** negative integer, int64 overflow, unbound local / exception on a feasible path.  An event on a feasible path is a
violation; its replay compiles the kernel with the JIT enabled in a sub-process and compares machine code with py_func.
LLVM code generation proper (rounding-level differences) is NOT claimed (see DESIGN §4 C18).
"""

import itertools

import numpy as np
import z3

from yv.engine import explore, harness, nbmodel, npshim, real, stubs
from yv.engine.real import S, Ctx
from yv.props import c03
from yv.props import common as cm


class OutOfBounds(Exception):
    pass


class BoundsArray:
    """the f8[:] argument of a kernel: records every access; negative indices (which Python would wrap and the
    compiled code would read before the buffer... or wrap) and indices >= len are violations"""

    def __init__(self, values, log, name):
        self._v = list(values)
        self._log = log
        self._name = name

    def __len__(self):
        return len(self._v)

    def __getitem__(self, i):
        n = len(self._v)
        if isinstance(i, slice):
            # slices clip to the buffer in Python and in numba alike: never a read outside
            return BoundsArray(self._v[i], self._log, self._name + f"[{i.start}:{i.stop}]")
        if isinstance(i, (S,)):
            raise real.NotEncodable("symbolic index")
        idx = int(i)
        self._log.append((self._name, idx, n))
        if not (0 <= idx < n):
            raise OutOfBounds(f"{self._name}: index {idx} on length {n}")
        return self._v[idx]

    def __iter__(self):
        for k in range(len(self._v)):
            self._log.append((self._name, k, len(self._v)))
            yield self._v[k]


def vector_dtype_event(f, arr, z_w=0.37):
    """the argument vector a calling class hands to an f8(f8,f8[:]) kernel must be a float64 array: any other dtype has no matching
    compiled definition (TypeError with the JIT on) although the interpreter accepts it"""
    if isinstance(arr, np.ndarray) and arr.ndim != 1:
        fn = getattr(f, "py_func", f)
        key = (getattr(fn, "__module__", "?"), getattr(fn, "__name__", "?"))
        if key in nbmodel.INFO and nbmodel.INFO[key]["sig"] and nbmodel.INFO[key]["sig"][1] == ["f8", "f8[:]"]:
            return dict(kind="sig", module=key[0], func=key[1],
                        args=[float(z_w), {"array": [nbmodel._num(x) for x in arr.ravel()], "dtype": "float64", "shape": list(arr.shape)}],
                        detail=f"the calling class passes a {arr.ndim}-dimensional array as argument vector; the kernel is compiled for one-dimensional f8[:] only "
                               f"(no matching definition under the JIT)")
    if isinstance(arr, np.ndarray) and arr.dtype != object and arr.dtype != np.float64:
        fn = getattr(f, "py_func", f)
        key = (getattr(fn, "__module__", "?"), getattr(fn, "__name__", "?"))
        if key in nbmodel.INFO and nbmodel.INFO[key]["sig"] and nbmodel.INFO[key]["sig"][1] == ["f8", "f8[:]"]:
            return dict(kind="sig", module=key[0], func=key[1], args=[float(z_w), {"array": [x.item() for x in arr], "dtype": str(arr.dtype)}],
                        detail=f"the calling class passes an argument vector of dtype {arr.dtype}; the kernel is compiled for f8[:] only (no matching definition under the JIT)")
    return None


def run_part(ctx, f, args, name):
    z = ctx.var("z", 0, 1)
    log = []
    try:
        f(z, BoundsArray(args, log, name))
        return log, None
    except OutOfBounds as e:
        return log, e
    except IndexError as e:
        return log, OutOfBounds(str(e))


def float_part(args):
    """float replay: real kernel, real argument vector, bounds-recording wrapper"""
    import importlib

    if args.get("kind") == "label":
        from yadism.coefficient_functions import splitting_functions as split

        rsl = [d[args["label"]](args["nf"]) for d in split.raw_labels if args["label"] in d][0]
    elif args.get("kind") == "tmc":
        from yadism.coefficient_functions.partonic_channel import RSL
        from yadism.esf import tmc

        rsl = RSL(getattr(tmc, args["ker"]), args=[0.3])
    else:
        rsl = c03._float_obj(args)[args["order"]]()
    f = getattr(rsl, args["part"])
    log = []
    try:
        f(args.get("z", 0.37), BoundsArray(list(rsl.args[args["part"]]), log, args["part"]))
    except (OutOfBounds, IndexError) as e:
        return True, f"{args}: {e}"
    except Exception as e:  # noqa
        return False, f"other exception {e!r} (C16)"
    bad = [l for l in log if not isinstance(l[1], int) or not (0 <= l[1] < l[2])]
    return (True, f"{args}: accesses {bad[:3]}") if bad else (False, f"all {len(log)} accesses inside the vector")


REPLAYERS = {"frozen": nbmodel.replay_frozen, "part": float_part, "compiled": nbmodel.replay_compiled}


def report_events(chk, events, where):
    """typed-semantics events of one path (yv/engine/nbmodel.py); returns the number reported"""
    n = 0
    for ev in events:
        n += 1
        chk.report(f"nb:{ev['kind']}:{ev['module'].split('.')[-1]}.{ev['func']}",
                   f"{where}: {ev['module']}.{ev['func']}: compiled and interpreted semantics differ -- {ev['detail']}", "compiled",
                   dict(module=ev["module"], func=ev["func"], args=ev["args"], detail=ev["detail"]))
    return n


def report_raise(chk, exc, where):
    """an exception of a kernel's Python body on a feasible path (the compiled kernel does not raise UnboundLocalError/NameError)"""
    loc = nbmodel.locate_exception(exc)
    if loc is None:
        return False
    (modname, func), args = loc
    chk.report(f"nb:raise:{modname.split('.')[-1]}.{func}", f"{where}: {modname}.{func}: the interpreter raises {type(exc).__name__}: {str(exc)[:80]} on a feasible path",
               "compiled", dict(module=modname, func=func, args=args, detail=f"{type(exc).__name__}: {str(exc)[:80]}"))
    return True


NIELSEN_NM = [(n, m) for n in range(1, 5) for m in range(1, 5) if n + m <= 5]


def run_special(chk):
    """li2, s2, nielsen, wgplg on an unrestricted symbolic real argument, every feasible path"""
    from yadism.coefficient_functions import special
    from yadism.coefficient_functions.asy import raw_nc
    from yadism.coefficient_functions.special import nielsen as nmod

    cases = [("li2", special.li2, (), dict(lo=None, hi=None)), ("s2", special.s2, (), dict(lo=0, hi=None))]
    cases += [(f"nielsen({n},{m},X)", nmod.nielsen, (n, m), dict(lo=None, hi=None)) for n, m in NIELSEN_NM]
    cases += [(f"wgplg({n},{m},X)", raw_nc.wgplg, (n, m), dict(lo=None, hi=None)) for n, m in NIELSEN_NM[:3]]
    chk.encode(special.li2, special.s2, nmod.nielsen, raw_nc.wgplg)
    npaths = 0
    for name, f, pre, dom in cases:
        with Ctx(chk.seed) as ctx, npshim.patched((nmod, "np", npshim.NPShim()), (special, "np", npshim.NPShim())):
            def body(f=f, pre=pre, dom=dom):
                nbmodel.take_events()
                X = ctx.var("X", dom["lo"], dom["hi"], wlo=-3, whi=3)
                f(*pre, X)
                return nbmodel.take_events()

            ex = explore.Explorer(ctx, max_paths=32, timeout_ms=3000)
            paths = ex.run(body)
            chk.paths += len(paths)
            npaths += len(paths)
            if ex.bound_hit:
                chk.inconclusive_note(f"special:{name}: path bound hit")
            for i, p in enumerate(paths):
                chk.obligations += 1
                chk.evaluations += 1
                chk.nontrivial.add(f"special:{name}")
                where = f"special:{name}/path{i}"
                if p.kind == "exc":
                    if isinstance(p.value, (real.NotEncodable, real.Concretised)):
                        chk.inconclusive_note(f"{where}: not encodable: {p.value}")
                    elif not report_raise(chk, p.value, where):
                        chk.inconclusive_note(f"{where}: harness exception {p.value!r}")
                    continue
                if report_events(chk, p.value, where) == 0:
                    chk.discharged += 1
    chk.section("typed_semantics", special_function_paths=npaths)


def run(chk, only=None):
    stubs._preimport()
    static = nbmodel.instrument()
    try:
        return _run(chk, only, static)
    finally:
        nbmodel.restore()


def _run(chk, only, static):
    from yadism.coefficient_functions import partonic_channel as pcm
    from yadism.coefficient_functions import splitting_functions as split
    from yadism.esf import tmc

    # ---- typed semantics: declared signatures (from the current source) ----
    for key, info in sorted(nbmodel.INFO.items()):
        chk.obligations += 1
        bad = [f for f in static if (f["module"], f["func"]) == key]
        if not bad:
            chk.discharged += 1
        for f in bad:
            chk.report(f"nb:sig:{key[0].split('.')[-1]}.{key[1]}", f"{key[0]}.{key[1]}: {f['detail']}", "compiled",
                       dict(module=key[0], func=key[1], args=[], static=True, sig=[info["sig"][0], info["sig"][1]] if info["sig"] else None, detail=f["detail"]))
    # ---- typed semantics: module-level names the kernels read are compile-time constants; nothing in the tree may rebind them ----
    if only in (None, "frozen"):
        frozen = nbmodel.frozen_globals()
        writers = nbmodel.global_writers(frozen)
        chk.section("frozen_globals", names=len(frozen), kernels_reading_one=len({k for v in frozen.values() for k in v}),
                    writers_found=len(writers), examples=[f"{m}.{a}" for m, a in sorted(frozen)][:8])
        for name in sorted(frozen):
            chk.obligations += 1
            ws = [w for w in writers if tuple(name) in [tuple(n) for n in w["names"]]]
            if not ws:
                chk.discharged += 1
            for w in ws:
                kern = next((k for k in frozen[name] if nbmodel.INFO.get(k, {}).get("sig") and nbmodel.INFO[k]["sig"][1] == ["f8", "f8[:]"]), frozen[name][0])
                sig = nbmodel.INFO.get(kern, {}).get("sig") or ["f8", ["f8", "f8[:]"]]
                kargs = [0.37 if t in ("f8", "f4") else ([4.0, 4.0, 1.0, 1.0] if t.endswith("[:]") else 4) for t in sig[1]]
                chk.report(f"nb:frozen:{name[0].split('.')[-1]}.{name[1]}",
                           f"{w['file']}:{w['line']}: {w['how']}: {name[0]}.{name[1]} is a compile-time constant of {len(frozen[name])} compiled kernel(s) "
                           f"(e.g. {kern[0]}.{kern[1]}) but is read afresh by the interpreter", "frozen",
                           dict(module=kern[0], func=kern[1], args=kargs, name=list(name), call=list(w["call"]) if w["call"] else None,
                                how=w["how"], file=w["file"], line=w["line"]))
    if only in (None, "special"):
        run_special(chk)
    if only == "special":
        return chk.finish(explanation="special functions only (developer run)", rule="")

    chk.encode(pcm.RSL.__init__, pcm.RSL.from_distr_coeffs, pcm.sing_from_distr_coeffs, pcm.loc_from_distr_coeffs, pcm.loc_from_delta)
    chk.bounds = {"z": "(0,1) symbolic", "classes": "every PartonicChannel subclass of light/heavy/asy/intrinsic x orders 0..3 x nf (3 quick / 3..6)",
                  "labels": "every splitting label x nf", "TMC kernels": "h2_ker, g2_ker, h3_ker, k2_ker with the [xi] vector",
                  "typed semantics": "all @njit kernels of the tree instrumented; special functions li2, s2 (x>0), nielsen/wgplg for every legal (n,m) on an "
                                     "unrestricted real argument, <= 32 paths each; modelled divergence classes: lossy signature, int ** negative int, int64 overflow, "
                                     "unbound local/exception on a feasible path",
                  "claim": "'no read outside the argument vector' and 'no modelled typed-semantics divergence' on Python-semantics paths; machine-code equivalence "
                           "beyond the modelled classes (LLVM code generation, rounding) NOT claimed"}
    chk.stub("LeProHQ/adani/tabulated coefficients/li2/nielsen -> atoms")
    chk.assume("NUMBA_DISABLE_JIT=1: the kernels' Python bodies are what is executed; the compiled code is reached only in replays (JIT enabled in a sub-process)",
               "numba's typed semantics differ from the interpreter's for these kernels only in the modelled classes (engine/nbmodel.py) up to rounding")
    naccess = 0
    items, _ = c03.class_items(chk.tier)
    items = [it for it in items if it[6] == 3] if chk.tier == "quick" else items
    for key, fam, mname, cname_, cls, kws, nf, proc in items:
        for order in range(4):
            with Ctx(chk.seed) as ctx, stubs.cf_stubs():
                def body():
                    nbmodel.take_events()
                    obj = c03.build(ctx, cls, kws, nf, proc)
                    rsl = obj[order]()
                    if rsl is None:
                        return None
                    out = []
                    for part in ("reg", "sing", "loc"):
                        f = getattr(rsl, part)
                        if f is None:
                            continue
                        ev = vector_dtype_event(f, rsl.args[part])
                        if ev is not None:
                            nbmodel.EVENTS.append(ev)
                        n_args = int(np.size(rsl.args[part]))
                        try:
                            out.append((part, n_args) + run_part(ctx, f, list(np.ravel(rsl.args[part])), part))
                        except (real.NotEncodable, real.Concretised, TypeError, AttributeError) as e:
                            out.append((part, n_args, [], ("skip", str(e)[:60])))
                    out.append(("__events__", 0, nbmodel.take_events(), None))
                    return out

                ex = explore.Explorer(ctx, max_paths=32, timeout_ms=3000)
                paths = ex.run(body)
                chk.paths += len(paths)
                for p in paths:
                    if p.kind == "exc" and isinstance(p.value, (UnboundLocalError, NameError)):
                        ctx.assign = dict(p.assign)
                        report_raise(chk, p.value, f"{key}/o{order}")
                    if p.kind != "ok" or not p.value:
                        continue
                    for part, n, log, err in p.value:
                        if part == "__events__":
                            chk.obligations += 1
                            if report_events(chk, log, f"{key}/o{order}") == 0:
                                chk.discharged += 1
                            continue
                        chk.obligations += 1
                        chk.evaluations += 1
                        chk.nontrivial.add(f"{fam}.{mname}.{cname_}/o{order}/{part}")
                        naccess += len(log)
                        if isinstance(err, tuple):
                            chk.section("skipped_not_encodable", **{f"{key}/o{order}/{part}": err[1]})
                            chk.discharged += 1
                            continue
                        if err is None:
                            chk.discharged += 1
                            if len(chk.samples) < 3 and log:
                                chk.sample({"kernel": f"{key}/o{order}/{part}", "vector_length": n, "indices_read": sorted({l[1] for l in log if isinstance(l[1], int)})})
                            continue
                        ctx.assign = dict(p.assign)
                        mm = c03.model_masses(ctx, None, kws)
                        chk.report(f"oob:{fam}.{mname}.{cname_}:o{order}:{part}", f"{key}/o{order}/{part}: reads outside its argument vector ({err})",
                                   "part", dict(module=cls.__module__, cls=cname_, order=order, nf=nf, proc=proc, xB=mm["xB"], Q2=mm["Q2"],
                                                masses={k: mm[k] for k in kws}, z=float(p.assign.get("z", 0.5)), part=part))
    # splitting labels
    for labels in split.raw_labels:
        for lab, mk in labels.items():
            for nf in (3, 6) if chk.tier == "quick" else (3, 4, 5, 6):
                with Ctx(chk.seed) as ctx, stubs.cf_stubs():
                    rsl = mk(nf)
                    for part in ("reg", "sing", "loc"):
                        f = getattr(rsl, part)
                        if f is None:
                            continue
                        chk.obligations += 1
                        chk.evaluations += 1
                        chk.nontrivial.add(f"split.{lab}/{part}")
                        try:
                            log, err = run_part(ctx, f, list(rsl.args[part]), part)
                        except (real.NotEncodable, real.Concretised, TypeError, AttributeError):
                            chk.discharged += 1
                            continue
                        naccess += len(log)
                        if err is None:
                            chk.discharged += 1
                        else:
                            chk.report(f"oob:split.{lab}:{part}", f"split.{lab}/nf{nf}/{part}: reads outside its argument vector ({err})", "part",
                                       dict(kind="label", label=lab, nf=nf, part=part))
    # TMC kernels with the vector _convolve_FX packs ([xi])
    for ker in ("h2_ker", "g2_ker", "h3_ker", "k2_ker"):
        with Ctx(chk.seed) as ctx:
            chk.obligations += 1
            chk.evaluations += 1
            chk.encode(getattr(tmc, ker))
            log, err = run_part(ctx, getattr(tmc, ker), [ctx.var("xi", 0, 1, hi_open=False)], "reg")
            naccess += len(log)
            if err is None:
                chk.discharged += 1
            else:
                chk.report(f"oob:tmc.{ker}", f"tmc.{ker}: reads outside its argument vector ({err})", "part", dict(kind="tmc", ker=ker, part="reg"))
    chk.section("accesses", recorded=naccess)
    # kernels no calling class reaches (dead or auxiliary code that is compiled all the same): run them directly on a symbolic z with an [nf] vector
    import importlib

    for (modname, fname), info in sorted(nbmodel.INFO.items()):
        if info["entered"] or info["sig"] is None or info["sig"][1] not in (["f8", "f8[:]"], ["f8"]):
            continue
        with Ctx(chk.seed) as ctx, stubs.cf_stubs():
            f = getattr(importlib.import_module(modname), fname)

            def body(f=f, two=len(info["sig"][1]) == 2):
                nbmodel.take_events()
                z = ctx.var("z", 0, 1)
                f(z, BoundsArray([4.0], [], "args")) if two else f(z)
                return nbmodel.take_events()

            for i, p in enumerate(explore.Explorer(ctx, max_paths=16, timeout_ms=3000).run(body)):
                chk.paths += 1
                chk.obligations += 1
                if p.kind == "exc":
                    if isinstance(p.value, (UnboundLocalError, NameError)):
                        report_raise(chk, p.value, f"direct:{fname}/path{i}")
                    else:
                        chk.discharged += 1  # unknown calling convention: other exceptions are not this clause's subject
                    continue
                if report_events(chk, p.value, f"direct:{fname}/path{i}") == 0:
                    chk.discharged += 1
    left = nbmodel.take_events()
    chk.obligations += 1
    if report_events(chk, left, "splitting labels / TMC kernels") == 0:
        chk.discharged += 1
    entered = sorted(f"{k[0].split('coefficient_functions.')[-1]}.{k[1]}" for k, v in nbmodel.INFO.items() if v["entered"])
    never = sorted(f"{k[0].split('coefficient_functions.')[-1]}.{k[1]}" for k, v in nbmodel.INFO.items() if not v["entered"])
    chk.section("typed_semantics", kernels_instrumented=len(nbmodel.INFO), kernels_executed=len(entered), kernels_never_executed=never[:60])
    return chk.finish(
        explanation="Every RSL part of every channel class (x order x nf), every splitting label and the TMC kernels run (Python semantics) at a "
        "symbolic z on all feasible paths, with the argument vector the calling class really packs wrapped in a bounds-recording array; "
        "every element access, iteration and slice is checked against 0 <= i < len (negative indices included). The same runs, plus runs of "
        "li2/s2/nielsen/wgplg on an unrestricted symbolic argument, execute an instrumented copy of every @njit kernel that records where numba's typed "
        "semantics leave the interpreter's (lossy declared signature, integer ** negative integer, int64 overflow, unbound local or exception on a "
        "feasible path); an event is replayed against the machine code (JIT enabled in a sub-process). Agreement of the LLVM code with the interpreter "
        "beyond these modelled classes is not claimed.",
        rule="one obligation per (class, order, part, path) / (label, nf, part) / TMC kernel; distinct = kernel part; non-trivial = it has an argument vector",
    )
