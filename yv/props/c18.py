"""C18 (partial) -- compiled kernels never read outside the argument arrays they are given.

Claimed clause only: for every RSL part of every channel class / splitting label / TMC kernel the
argument vector is the one the calling class really packs, wrapped in a bounds-recording array; the
kernel runs (Python semantics, JIT off) at a symbolic z, all feasible paths explored; every index
expression must satisfy 0 <= i < len.  In compiled mode a violation is a silent garbage read.
Equality of machine code and interpreter results is NOT claimed (see DESIGN §4 C18).
"""

import itertools

import numpy as np
import z3

from yv.engine import explore, harness, npshim, real, stubs
from yv.engine.real import S, Ctx
from yv.props import c03
from yv.props import common as cm


class OutOfBounds(Exception):
    pass


class BoundsArray:
    """the f8[:] argument of a kernel: records every access; negative indices (which Python would wrap and the
    compiled code would read before the buffer... or wrap) and indices >= len are violations"""

    def __init__(self, values, log, name):
        self._v = list(values)
        self._log = log
        self._name = name

    def __len__(self):
        return len(self._v)

    def __getitem__(self, i):
        n = len(self._v)
        if isinstance(i, slice):
            # slices clip to the buffer in Python and in numba alike: never a read outside
            return BoundsArray(self._v[i], self._log, self._name + f"[{i.start}:{i.stop}]")
        if isinstance(i, (S,)):
            raise real.NotEncodable("symbolic index")
        idx = int(i)
        self._log.append((self._name, idx, n))
        if not (0 <= idx < n):
            raise OutOfBounds(f"{self._name}: index {idx} on length {n}")
        return self._v[idx]

    def __iter__(self):
        for k in range(len(self._v)):
            self._log.append((self._name, k, len(self._v)))
            yield self._v[k]


def run_part(ctx, f, args, name):
    z = ctx.var("z", 0, 1)
    log = []
    try:
        f(z, BoundsArray(args, log, name))
        return log, None
    except OutOfBounds as e:
        return log, e
    except IndexError as e:
        return log, OutOfBounds(str(e))


def float_part(args):
    """float replay: real kernel, real argument vector, bounds-recording wrapper"""
    import importlib

    if args.get("kind") == "label":
        from yadism.coefficient_functions import splitting_functions as split

        rsl = [d[args["label"]](args["nf"]) for d in split.raw_labels if args["label"] in d][0]
    elif args.get("kind") == "tmc":
        from yadism.coefficient_functions.partonic_channel import RSL
        from yadism.esf import tmc

        rsl = RSL(getattr(tmc, args["ker"]), args=[0.3])
    else:
        rsl = c03._float_obj(args)[args["order"]]()
    f = getattr(rsl, args["part"])
    log = []
    try:
        f(args.get("z", 0.37), BoundsArray(list(rsl.args[args["part"]]), log, args["part"]))
    except (OutOfBounds, IndexError) as e:
        return True, f"{args}: {e}"
    except Exception as e:  # noqa
        return False, f"other exception {e!r} (C16)"
    bad = [l for l in log if not isinstance(l[1], int) or not (0 <= l[1] < l[2])]
    return (True, f"{args}: accesses {bad[:3]}") if bad else (False, f"all {len(log)} accesses inside the vector")


REPLAYERS = {"part": float_part}


def run(chk, only=None):
    from yadism.coefficient_functions import partonic_channel as pcm
    from yadism.coefficient_functions import splitting_functions as split
    from yadism.esf import tmc

    chk.encode(pcm.RSL.__init__, pcm.RSL.from_distr_coeffs, pcm.sing_from_distr_coeffs, pcm.loc_from_distr_coeffs, pcm.loc_from_delta)
    chk.bounds = {"z": "(0,1) symbolic", "classes": "every PartonicChannel subclass of light/heavy/asy/intrinsic x orders 0..3 x nf (3 quick / 3..6)",
                  "labels": "every splitting label x nf", "TMC kernels": "h2_ker, g2_ker, h3_ker, k2_ker with the [xi] vector",
                  "claim": "ONLY 'no read outside the argument vector' on Python-semantics paths; machine-code equivalence NOT claimed"}
    chk.stub("LeProHQ/adani/tabulated coefficients/li2/nielsen -> atoms")
    chk.assume("NUMBA_DISABLE_JIT=1: the kernels' Python bodies are what is executed; that the compiled code computes the same is not established here")
    naccess = 0
    items, _ = c03.class_items(chk.tier)
    items = [it for it in items if it[6] == 3] if chk.tier == "quick" else items
    for key, fam, mname, cname_, cls, kws, nf, proc in items:
        for order in range(4):
            with Ctx(chk.seed) as ctx, stubs.cf_stubs():
                def body():
                    obj = c03.build(ctx, cls, kws, nf, proc)
                    rsl = obj[order]()
                    if rsl is None:
                        return None
                    out = []
                    for part in ("reg", "sing", "loc"):
                        f = getattr(rsl, part)
                        if f is None:
                            continue
                        try:
                            out.append((part, len(rsl.args[part])) + run_part(ctx, f, list(rsl.args[part]), part))
                        except (real.NotEncodable, real.Concretised, TypeError, AttributeError) as e:
                            out.append((part, len(rsl.args[part]), [], ("skip", str(e)[:60])))
                    return out

                ex = explore.Explorer(ctx, max_paths=32, timeout_ms=3000)
                paths = ex.run(body)
                chk.paths += len(paths)
                for p in paths:
                    if p.kind != "ok" or not p.value:
                        continue
                    for part, n, log, err in p.value:
                        chk.obligations += 1
                        chk.evaluations += 1
                        chk.nontrivial.add(f"{fam}.{mname}.{cname_}/o{order}/{part}")
                        naccess += len(log)
                        if isinstance(err, tuple):
                            chk.section("skipped_not_encodable", **{f"{key}/o{order}/{part}": err[1]})
                            chk.discharged += 1
                            continue
                        if err is None:
                            chk.discharged += 1
                            if len(chk.samples) < 3 and log:
                                chk.sample({"kernel": f"{key}/o{order}/{part}", "vector_length": n, "indices_read": sorted({l[1] for l in log if isinstance(l[1], int)})})
                            continue
                        ctx.assign = dict(p.assign)
                        mm = c03.model_masses(ctx, None, kws)
                        chk.report(f"oob:{fam}.{mname}.{cname_}:o{order}:{part}", f"{key}/o{order}/{part}: reads outside its argument vector ({err})",
                                   "part", dict(module=cls.__module__, cls=cname_, order=order, nf=nf, proc=proc, xB=mm["xB"], Q2=mm["Q2"],
                                                masses={k: mm[k] for k in kws}, z=float(p.assign.get("z", 0.5)), part=part))
    # splitting labels
    for labels in split.raw_labels:
        for lab, mk in labels.items():
            for nf in (3, 6) if chk.tier == "quick" else (3, 4, 5, 6):
                with Ctx(chk.seed) as ctx, stubs.cf_stubs():
                    rsl = mk(nf)
                    for part in ("reg", "sing", "loc"):
                        f = getattr(rsl, part)
                        if f is None:
                            continue
                        chk.obligations += 1
                        chk.evaluations += 1
                        chk.nontrivial.add(f"split.{lab}/{part}")
                        try:
                            log, err = run_part(ctx, f, list(rsl.args[part]), part)
                        except (real.NotEncodable, real.Concretised, TypeError, AttributeError):
                            chk.discharged += 1
                            continue
                        naccess += len(log)
                        if err is None:
                            chk.discharged += 1
                        else:
                            chk.report(f"oob:split.{lab}:{part}", f"split.{lab}/nf{nf}/{part}: reads outside its argument vector ({err})", "part",
                                       dict(kind="label", label=lab, nf=nf, part=part))
    # TMC kernels with the vector _convolve_FX packs ([xi])
    for ker in ("h2_ker", "g2_ker", "h3_ker", "k2_ker"):
        with Ctx(chk.seed) as ctx:
            chk.obligations += 1
            chk.evaluations += 1
            chk.encode(getattr(tmc, ker))
            log, err = run_part(ctx, getattr(tmc, ker), [ctx.var("xi", 0, 1, hi_open=False)], "reg")
            naccess += len(log)
            if err is None:
                chk.discharged += 1
            else:
                chk.report(f"oob:tmc.{ker}", f"tmc.{ker}: reads outside its argument vector ({err})", "part", dict(kind="tmc", ker=ker, part="reg"))
    chk.section("accesses", recorded=naccess)
    return chk.finish(
        explanation="Every RSL part of every channel class (x order x nf), every splitting label and the TMC kernels run (Python semantics) at a "
        "symbolic z on all feasible paths, with the argument vector the calling class really packs wrapped in a bounds-recording array; "
        "every element access, iteration and slice is checked against 0 <= i < len (negative indices included). This is the only clause "
        "of C18 that is claimed: agreement of the numba/LLVM machine code with the interpreter is not decidable with the solvers here.",
        rule="one obligation per (class, order, part, path) / (label, nf, part) / TMC kernel; distinct = kernel part; non-trivial = it has an argument vector",
    )
