"""C13 -- symmetry and decoupling relations between processes and beams.

Pairs of symbolic runs of the real weight code / the real Combiner; z3 proves the relation between the
two resulting formal linear forms (kernel identity x parton -> weight) for ALL electroweak parameters.
"""

import itertools

import z3

from yv.engine import explore, harness, real, stubs
from yv.engine.real import S, Ctx
from yv.props import common as cm

EQUAL_CHARGE = [(1, 3), (1, 5), (3, 5), (2, 4), (2, 6), (4, 6)]


def cells(tier):
    out = []
    q = tier == "quick"
    # A: Z decoupling (propagator stubbed to E, E=0) and B: e+ P == e- (-P)
    for kind, flav, nf, pto in itertools.product(cm.KINDS, ["light", "total", "charm"], [3, 4, 5, 6], [0, 2, 3]):
        if flav == "charm" and nf != 3:
            continue
        if q and (nf + pto + len(kind) + len(flav)) % 3:
            continue
        if kind == "g1" and pto == 3:
            continue  # no N3LO g1 classes (C16)
        sch, zm = ("FFNS", (False, False, False)) if flav == "charm" else ("ZM-VFNS", (True, True, True))
        base = dict(obs=f"{kind}_{flav}", nf=nf, pto=pto, scheme=sch, ZMq=zm)
        out.append(dict(rel="decouple", **base))
        out.append(dict(rel="positron", process="NC", **base))
        out.append(dict(rel="positron", process="EM", **base))
    # A': the same two relations in the massive schemes (light/total pick up the 'missing' heavy-quark terms from NNLO on)
    for kind, flav, (sch, nf, zm), pto in itertools.product(cm.KINDS, ["light", "total", "bottom"],
                                                             [("FFNS", 3, (False, False, False)), ("FFN0", 3, (False, False, False)), ("FONLL-FFNS", 4, (True, False, True))],
                                                             [1, 2]):
        if q and (nf + pto + len(kind) + len(flav) + len(sch)) % 3 and not (kind == "F2" and flav == "light" and sch == "FFNS" and pto == 2):
            continue
        base = dict(obs=f"{kind}_{flav}", nf=nf, pto=pto, scheme=sch, ZMq=zm)
        out.append(dict(rel="decouple", **base))
        out.append(dict(rel="positron", process="NC", **base))
    # C: charge conjugation of the CC beams
    for kind, flav, (sch, nf, zm), pto in itertools.product(
            ["F2", "FL", "F3"], ["light", "total", "charm", "bottom", "charmlight"],
            [("ZM-VFNS", 3, (1, 1, 1)), ("ZM-VFNS", 4, (1, 1, 1)), ("ZM-VFNS", 5, (1, 1, 1)), ("ZM-VFNS", 6, (1, 1, 1)),
             ("FFNS", 3, (0, 0, 0)), ("FFNS", 4, (1, 0, 0)), ("FFN0", 3, (0, 0, 0))], [0, 1, 3]):
        if q and (nf + pto + len(kind) + len(flav) + len(sch)) % 3:
            continue
        for a, b in ((12, -12), (-11, 11), (12, -11), (-12, 11)):
            out.append(dict(rel="conjugate" if a * b < 0 and abs(a) == abs(b) else "sameW", obs=f"{kind}_{flav}", nf=nf, pto=pto,
                            scheme=sch, ZMq=tuple(bool(z) for z in zm), pids=(a, b)))
    # D: equal-charge exchange in massless schemes
    for kind, flav, nf, proc, pid, pto in itertools.product(cm.KINDS, ["light", "total", "charm", "bottom"], [3, 4, 5, 6], ["EM", "NC"],
                                                            [11, -11, 12], [0, 2, 3]):
        if flav in ("charm", "bottom") and nf < {"charm": 4, "bottom": 5}[flav]:
            continue  # massless heavy-tagged observables exist only above their threshold
        if q and (nf + pto + len(kind) + len(flav) + abs(pid)) % 4 and not (flav == "charm" and nf == 5 and pid == 11 and kind in ("F2", "F3")):
            continue
        if kind == "g1" and pto == 3:
            continue
        out.append(dict(rel="exchange", obs=f"{kind}_{flav}", nf=nf, pto=pto, scheme="ZM-VFNS", ZMq=(True, True, True),
                        process=proc, pid=pid))
    # D': the massless quarks of the fixed-flavour scheme FFNS are as interchangeable as those of the zero-mass scheme (d <-> s for NfFF = 3,
    # additionally u <-> c for NfFF = 4): light and total observables, incl. the heavy-quark-loop ('missing') terms from NNLO on.
    # The same holds in the asymptotic scheme FFN0 (on the pinned tree it did not: the asymptotic 'missing' term skipped the last light flavour --
    # reported by these cells, reproduced through run_yadism, repaired by a fix: commit, see DESIGN 8.2).
    for kind, flav, (sch, nf, zm), proc, pto in itertools.product(["F2", "FL", "F3", "g1"], ["light", "total"],
                                                                  [("FFNS", 3, (False, False, False)), ("FFNS", 4, (True, False, False)),
                                                                   ("FFN0", 3, (False, False, False)), ("FFN0", 4, (True, False, False))],
                                                                  ["EM", "NC"], [1, 2]):
        if proc == "EM" and kind == "F3":
            continue
        if q and (nf + pto + len(kind) + len(flav) + len(proc) + len(sch)) % 3 and not (kind == "F2" and flav == "light" and sch in ("FFNS", "FFN0") and pto == 2 and proc == "NC"):
            continue
        out.append(dict(rel="exchange", obs=f"{kind}_{flav}", nf=nf, pto=pto, scheme=sch, ZMq=zm, process=proc, pid=11))
    return out


def _form(P, cell, process, pid, Q2, Pover=None):
    PP = dict(P)
    if Pover:
        PP.update(Pover)
    ks = cm.run_combiner(PP, obs=cell["obs"], process=process, pid=pid, Q2=Q2, scheme=cell["scheme"], nf=cell["nf"],
                         ZMq=cell["ZMq"], pto=cell["pto"], pto_evol=min(cell["pto"], 2))
    return cm.linear_form(ks)


def _cmp_forms(fa, fb, conj_b=False, sign=1, tag=""):
    """pairs for fa[(sig,p)] == sign * fb[(sig, +-p)]"""
    out = []
    keys = set(fa)
    for (sig, p) in fb:
        keys.add((sig, -p if (conj_b and p != 21) else p))
    for (sig, p) in sorted(keys, key=str):
        pb = -p if (conj_b and p != 21) else p
        out.append((f"{tag}{sig[0]}[{p}]", fa.get((sig, p), 0), sign * fb.get((sig, pb), 0) if sign != 1 else fb.get((sig, pb), 0)))
    return out


def pairs_for(cell, P, Q2, E=None):
    from yadism.coefficient_functions.coupling_constants import CouplingConstants

    rel = cell["rel"]
    pv = cell["obs"].split("_")[0] in ("F3", "gL", "g4")
    if rel == "decouple":
        # propagator stubbed by its contract (1, E, E^2) -- the real one is compared with PDG in C02 --
        # and the Z switched off: E = 0 (passed in as the number 0 for replays, a variable ==0 symbolically)
        orig = CouplingConstants.propagator_factor

        def prop(self, mode, Q2_):
            return {"phph": 1, "phZ": E, "ZZ": E * E}[mode]

        CouplingConstants.propagator_factor = prop
        try:
            out = []
            for pid in (11, -11):
                fn = _form(P, cell, "NC", pid, Q2)
                fe = _form(P, cell, "EM", pid, Q2)
                out += _cmp_forms(fn, fe, tag=f"pid{pid}:")
        finally:
            CouplingConstants.propagator_factor = orig
        return out
    if rel == "positron":
        fp = _form(P, cell, cell["process"], -11, Q2)
        fe = _form(P, cell, cell["process"], 11, Q2, Pover={"pol": -P["pol"]})
        return _cmp_forms(fp, fe)
    if rel in ("conjugate", "sameW"):
        a, b = cell["pids"]
        fa = _form(P, cell, "CC", a, Q2)
        fb = _form(P, cell, "CC", b, Q2)
        if rel == "sameW":
            return _cmp_forms(fa, fb)
        return _cmp_forms(fa, fb, conj_b=True, sign=-1 if pv else 1)
    if rel == "exchange":
        ks = cm.run_combiner(P, obs=cell["obs"], process=cell["process"], pid=cell["pid"], Q2=Q2, scheme=cell["scheme"],
                             nf=cell["nf"], ZMq=cell["ZMq"], pto=cell["pto"], pto_evol=min(cell["pto"], 2))
        out = []
        tagged = {"charm": 4, "bottom": 5}.get(cell["obs"].split("_")[1])
        for i, k in enumerate(ks):
            for a, b in EQUAL_CHARGE:
                if b > cell["nf"] or tagged in (a, b):
                    continue
                for s in (1, -1):
                    out.append((f"k{i}:{type(k.coeff).__name__}[{s*a}<->{s*b}]", k.partons.get(s * a, 0), k.partons.get(s * b, 0)))
        return out
    raise ValueError(rel)


def replay_cell(args):
    P = cm.ew_params(values=args["params"])
    cell = dict(args["cell"])
    cell["ZMq"] = tuple(cell["ZMq"])
    if "pids" in cell:
        cell["pids"] = tuple(cell["pids"])
    with cm.fixed_nf():
        prs = pairs_for(cell, P, float(args["params"].get("Q2", 10.0)), E=0.0)
    bad = harness.float_pairs_differ(prs, args.get("label"))
    if bad:
        return True, f"{cell}: {bad[:3]}"
    return False, "relation holds at this point"


def replay_eta(args):
    from yadism.coefficient_functions.coupling_constants import CouplingConstants

    p = args["params"]
    vals = []
    for mz2 in (p["MZ2"], p["MZ2b"]):
        P = cm.ew_params(values=dict(p, MZ2=mz2))
        cc = cm.make_coupling(P, "NC", 11)
        vals.append(cc.propagator_factor("phZ", p["Q2"]) * (mz2 + p["Q2"]))
    if abs(vals[0] - vals[1]) > 1e-9 * abs(vals[0]):
        return True, f"eta_gammaZ*(MZ2+Q2) depends on MZ2: {vals}"
    return False, "independent"


REPLAYERS = {"cell": replay_cell, "eta": replay_eta}


def float_pairs_cell(args):
    cell = dict(args["cell"])
    cell["ZMq"] = tuple(cell["ZMq"])
    if "pids" in cell:
        cell["pids"] = tuple(cell["pids"])
    with cm.fixed_nf():
        return pairs_for(cell, cm.ew_params(values=args["params"]), float(args["params"].get("Q2", 10.0)), E=0.0)


REPLAYERS["cell:pairs"] = float_pairs_cell


SHARDABLE = True


def run(chk, only=None):
    import yadism.coefficient_functions as cf
    from yadism.coefficient_functions import coupling_constants as ccmod
    from yadism.coefficient_functions import kernels as K
    from yadism.coefficient_functions.light import kernels as LK

    chk.encode(ccmod.CouplingConstants.get_weight, ccmod.CouplingConstants.get_fl11_weight,
               ccmod.CouplingConstants.leptonic_coupling, ccmod.CouplingConstants.partonic_coupling,
               ccmod.CouplingConstants.partonic_coupling_fl11, ccmod.CouplingConstants.propagator_factor,
               K.cc_weights, K.cc_weights_even, K.cc_weights_odd, K.generate_single_flavor_light, LK.generate,
               LK.nc_weights, LK.nc_fl11_weights, cf.Combiner.collect, cf.Combiner.collect_elems, cf.Combiner.drop_empty)
    allc = cells(chk.tier)
    chk.bounds = {"continuous": "all EW parameters, Q2 > 0 symbolic and unbounded", "cells": len(allc),
                  "orders": "pto in {0,1,2,3} (kernel lists incl. fl11 kernels at pto=3)"}
    chk.stub("decoupling cells: CouplingConstants.propagator_factor -> (1, E, E^2) with E == 0 (its real body is compared with "
             "PDG in C02 and shown ~ 1/(MZ2+Q2) here)", "nf_default -> the enumerated nf (thresholds are C06's subject)",
             "LeProHQ/adani/li2 -> atoms (constructors only)")
    chk.assume("relations are stated on the kernel lists (formal linear forms); equality of convolved runs follows by linearity (C01)",
               "Combiner.drop_empty decides w != 0 at the generic point")
    raised = 0
    for cell in allc:
        if only and only != cell["rel"]:
            continue
        if not chk.mine(":".join(f"{k}={v}" for k, v in cell.items())):
            continue
        with Ctx(chk.seed) as ctx, cm.fixed_nf(), cm.generic_drop_empty(), stubs.cf_stubs():
            cname = ":".join(f"{k}={v}" for k, v in cell.items())
            holder = {}

            def body():
                P = cm.ew_params(ctx)
                Q2 = ctx.var("Q2", 0, None, wlo=1, whi=20000)
                E = ctx.var_w("E", 0)  # witness 0: the float re-run (translator validation, replays) switches the Z off with E = 0.0
                if cell["rel"] == "decouple" and not getattr(ctx, "_e_fixed", False):
                    # part of the domain (not only of the proof obligations): solver-chosen points of flipped paths then have E = 0 too
                    ctx.domain.append(E.t == 0)
                    ctx._e_fixed = True
                return pairs_for(cell, P, Q2, E=E)

            ex = explore.Explorer(ctx, max_paths=16, timeout_ms=3000)
            paths = ex.run(body)
            chk.paths += len(paths)
            if ex.bound_hit:
                chk.inconclusive_note(f"{cname}: path bound hit")
            if paths and not any(p.kind == "ok" for p in paths) and not all(isinstance(p.value, (ValueError, NotImplementedError)) for p in paths):
                chk.inconclusive_note(f"{cname}: vacuity -- every path raised ({type(paths[0].value).__name__}: {str(paths[0].value)[:80]})")
            for p in paths:
                ctx.assign = dict(p.assign)  # replays fall back to this path's witness point
                if p.kind == "exc":
                    raised += 1
                    chk.notes.append(f"{cname}: raises {type(p.value).__name__}: {str(p.value)[:80]} (C16 owns dispatch failures)")
                    continue
                facts = ctx.facts() + p.pc + p.generic
                if cell["rel"] == "decouple":
                    facts = facts + [ctx.vars["E"][0] == 0]

                def rp_for(lab, ctx=ctx, cell=cell):
                    def rp(model):
                        asg = explore.model_to_assign(ctx, model)
                        params = {k: float(asg.get(k, ctx.assign.get(k, 1))) for k in cm.EW_PARAMS + ["Q2"]}
                        return "cell", dict(cell=cell, params=params, label=lab)

                    return rp

                harness.prove_pairs(chk, cname, p.value, facts, rp_for,
                                    lambda lab, cell=cell: f"{cell['rel']}:{cell['obs']}:{lab}",
                                    sample={"cell": cell, "n_pairs": len(p.value), "first": [l for l, _, _ in p.value[:4]]})
    # eta_gammaZ ~ 1/(MZ2+Q2): eta*(MZ2+Q2) does not depend on MZ2  => eta -> 0 when the Z decouples
    if not chk.first:
        return chk.finish(explanation="shard of C13 (see the merged evidence)", rule="")
    with Ctx(chk.seed) as ctx:
        P = cm.ew_params(ctx)
        Q2 = ctx.var("Q2", 0, None, wlo=1, whi=2000)
        Pb = dict(P)
        Pb["MZ2"] = ctx.var("MZ2b", 0, None, wlo=100, whi=9000)
        ea = cm.make_coupling(P, "NC", 11).propagator_factor("phZ", Q2) * (P["MZ2"] + Q2)
        eb = cm.make_coupling(Pb, "NC", 11).propagator_factor("phZ", Q2) * (Pb["MZ2"] + Q2)

        def rp(model, ctx=ctx):
            asg = explore.model_to_assign(ctx, model)
            return "eta", dict(params={k: float(asg.get(k, ctx.assign.get(k, 1))) for k in cm.EW_PARAMS + ["Q2", "MZ2b"]})

        chk.prove("eta_gammaZ*(MZ2+Q2) independent of MZ2", ea.t == eb.t, ctx.facts(), key="eta-decoupling", replay=rp)
        # vacuity / perturbation: e+ with +P is NOT e- with +P
        cp = cm.make_coupling(P, "NC", -11)
        ce = cm.make_coupling(P, "NC", 11)
        chk.expect_sat("perturbed relation (same P for e+ and e-)",
                       ctx.facts() + [cp.get_weight(2, Q2, "VV").t != ce.get_weight(2, Q2, "VV").t], what="perturbation")
        chk.expect_sat("domain", ctx.facts())
    chk.section("cells", n=len(allc), raised_in_code=raised)
    chk.exhaustive = False
    return chk.finish(
        explanation="For each relation the real Combiner/weight code is run twice on symbolic electroweak parameters and z3 "
        "proves, for all parameter values, the relation between the two formal linear forms: NC with the Z switched off == EM; "
        "(e+,P) == (e-,-P); nubar/e- CC == nu/e+ CC on conjugated partons with sign(-1) for parity-violating kinds, arbitrary CKM; "
        "equal-charge quark exchange symmetry of massless NC/EM kernel lists.",
        rule="one obligation per (cell, kernel identity, parton); distinct = distinct cell; non-trivial = symbolic weights involved",
    )
