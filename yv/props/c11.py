"""C11 -- cross sections are the documented combinations of structure functions.

The real CrossSection / EvaluatedCrossSection / xs_coeffs_* / ESFResult arithmetic run on symbolic
kinematics, theory parameters and formal structure-function tensors; z3 proves the result equal to
the documented combination for all values.
"""

import itertools

import numpy as np
import z3

from yv.engine import npshim, explore, harness, real
from yv.engine.real import S, Ctx
from yv.props import common as cm
from yv.refs import xs as xsref

XS_KINDS = ["XSHERANC", "XSHERANCAVG", "XSHERACC", "XSCHORUSCC", "XSNUTEVCC", "XSNUTEVNU", "FW", "F1", "g5", "XSFPFCC"]
ORDERS = [(0, 0, 0, 0), (1, 0, 0, 0), (1, 0, 1, 0), (2, 0, 1, 1)]


class FakeESF:
    def __init__(self, res):
        self._res = res

    def get_result(self):
        import copy

        return copy.deepcopy(self._res)


class FakeSF:
    def __init__(self, runner, name):
        self.runner, self.name = runner, name

    def get_esf(self, obs_name, kin, *args, use_raw=True, force_local=False):
        self.runner.requests.append((obs_name.name, kin, use_raw))
        return FakeESF(self.runner.tensor(obs_name.name, kin))


class FakeRunner:
    """Stands for Runner: hands out structure functions as formal tensors and records the requests."""

    def __init__(self, configs, mk):
        self.configs = configs
        self.requests = []
        self._mk = mk
        self._cache = {}

    def get_sf(self, obs_name):
        return FakeSF(self, obs_name.name)

    def tensor(self, name, kin):
        from yadism.esf.result import ESFResult

        if name not in self._cache:
            r = ESFResult(kin["x"], kin["Q2"], 4)
            for o in ORDERS:
                v = np.empty((1, 2), dtype=object)
                e = np.empty((1, 2), dtype=object)
                for j in range(2):
                    v[0, j] = self._mk(f"{name}|{o}|v{j}")
                    e[0, j] = self._mk(f"{name}|{o}|e{j}")
                r.orders[o] = (v, e)
            self._cache[name] = r
        return self._cache[name]


def params(ctx=None, values=None):
    if ctx is not None:
        M2h = ctx.var("M2h", 0, None, wlo=0.5, whi=2)
        return dict(x=ctx.var("x", 0, 1, hi_open=False), y=ctx.var("y", 0, 1, hi_open=False),
                    Q2=ctx.var("Q2", 0, None, wlo=1, whi=200), M2h=M2h, Mh=np.sqrt(M2h),
                    M2W=ctx.var("M2W", 0, None, wlo=1000, whi=7000), GF=ctx.var("GF", 0, None, wlo=1e-5, whi=2e-5),
                    pol=ctx.var("pol", -1, 1, lo_open=False, hi_open=False))
    v = dict(values)
    v["Mh"] = float(np.sqrt(v["M2h"]))
    v.setdefault("pol", 0.0)
    return v


def pairs_for(case, V, mk, only_impl=False):
    """Run the real CrossSection for one (kind, flavour, projectile) on parameters V."""
    from yadism import observable_name as on
    from yadism.xs import CrossSection

    kind, flav, pid = case["kind"], case["flavor"], case["pid"]
    # the beam polarisation of the run is symbolic: the documented combinations do not depend on it (it lives in the structure functions)
    P = cm.ew_params(values={})
    P["pol"] = V["pol"]
    cc = cm.make_coupling(P, "NC", pid)
    cfg = cm.make_configs(cc, M2target=V["M2h"], GF=V["GF"], M2W=V["M2W"])
    runner = FakeRunner(cfg, mk)
    xs = CrossSection(on.ObservableName(f"{kind}_{flav}"), runner)
    kin = {"x": V["x"], "Q2": V["Q2"], "y": V["y"]}
    # the probed point is not the first of the run: an earlier point of the same y bin (another x) has been evaluated before it, and the
    # results are requested twice -- the formula has to hold for every point of every request, not for the first evaluation only
    # variant prev_y0: the earlier point sits at y = 0 exactly, where the xF3 coefficient of every kind vanishes (what holds for it must not
    # be remembered for the kind)
    kin_prev = {"x": V["x"] / 2, "Q2": V["Q2"], "y": 0.0 if case.get("prev_y0") else V["y"]}
    xs.load([kin_prev, kin])
    res = xs.get_result()[1]
    res_again = xs.get_result()[1]
    if only_impl:  # C16 executes the implementation alone (on the strata where the oracle formula itself is singular)
        return [res, res_again]
    runner.requests = [r for r in runner.requests if r[1].get("x") is not kin_prev["x"]]
    out = []
    if kind == "g5":
        c = xsref.coeffs_polarized(kind)
        names = [f"g4_{flav}", f"gL_{flav}", f"g1_{flav}"]
    else:
        c = xsref.coeffs(kind, V["y"], V["x"], V["Q2"], V["M2h"], V["Mh"], V["M2W"], V["GF"], pid < 0)
        names = [f"F2_{flav}", f"FL_{flav}", f"F3_{flav}"]
    # wiring: same flavour, same kinematics, TMC-aware objects (use_raw=False)
    req = runner.requests
    out.append(("requested observables", sorted({r[0] for r in req}) == sorted(n for n, ci in zip(names, c)
                                                                               if n != names[2] or any(r[0] == names[2] for r in req)), True))
    out.append(("requests use the point's own kinematics", all(r[1] is kin or r[1] == kin for r in req), True))
    out.append(("requests ask for TMC-aware objects", all(r[2] is False for r in req), True))
    out.append(("kinematics echoed", (res.x is V["x"] or res.x == V["x"]) and (res.y is V["y"] or res.y == V["y"]), True))
    out.append(("order keys unchanged", sorted(res.orders) == sorted(ORDERS), True))
    f3_requested = any(r[0] == names[2] for r in req)
    for o in ORDERS:
        if o not in res.orders:
            continue
        for which, idx in (("v", 0), ("e", 1)):
            for j in range(2):
                t = [runner.tensor(n, kin).orders[o][idx][0, j] if (i < 2 or f3_requested) else 0 for i, n in enumerate(names)]
                ref = c[0] * t[0] + c[1] * t[1] + (c[2] * t[2] if f3_requested else 0)
                if not f3_requested:
                    # the code may skip F3 only if its coefficient vanishes
                    out.append((f"F3 skipped only when its coefficient is 0 [{o}{which}{j}]", c[2], 0))
                out.append((f"sigma[{o}].{which}[{j}]", res.orders[o][idx][0, j], ref))
                out.append((f"second get_result: sigma[{o}].{which}[{j}]", res_again.orders[o][idx][0, j] if o in res_again.orders else None, ref))
    return out


def runner_wiring_pairs(kind, pid_name, V, mk):
    """The same claim through the REAL Runner.__init__: the theory card's MW, MP, GF (and the projectile) must be the ones
    that reach the cross-section normalisation."""
    import eko.matchings as em
    import yadism.log
    from yadism.runner import Runner
    from yv.engine import npshim
    from yv.props import c06

    yadism.log.silent_mode = True
    Vc = dict(mc=1.51, mb=4.92, mt=172.5, kc=1.0, kb=1.0, kt=1.0, Q2=V["Q2"])
    t, o = c06.cards(Vc, "ZM-VFNS", 4, pto=0)
    t.update(MW=V["MW"], MP=V["MP"], GF=V["GF"], MZ=91.1876)
    o["ProjectileDIS"] = pid_name
    o["prDIS"] = "CC" if "CC" in kind or kind in ("FW", "XSNUTEVNU") else "NC"
    o["observables"] = {f"{kind}_total": [dict(x=V["x"], Q2=V["Q2"], y=V["y"])]}
    with npshim.patched((em, "np", npshim.NPShim())):
        r = Runner(t, o)
    elem = r.observables[f"{kind}_total"].elements[0]
    fake = FakeRunner(None, mk)
    elem.get_esf = lambda obs_name, kin: FakeESF(fake.tensor(obs_name.name, kin))
    res = elem.get_result()
    pid = {"electron": 11, "positron": -11, "neutrino": 12, "antineutrino": -12}[pid_name]
    M2h, M2W = V["MP"] * V["MP"], V["MW"] * V["MW"]
    c = xsref.coeffs(kind, V["y"], V["x"], V["Q2"], M2h, V["MP"], M2W, V["GF"], pid < 0)
    names = [f"F2_total", f"FL_total", f"F3_total"]
    kin = dict(x=V["x"], Q2=V["Q2"], y=V["y"])
    out = []
    for o_ in ORDERS:
        for j in range(2):
            t_ = [fake.tensor(n, kin).orders[o_][0][0, j] for n in names]
            out.append((f"runner:{kind}/{pid_name}: sigma[{o_}].v[{j}]", res.orders[o_][0][0, j], c[0] * t_[0] + c[1] * t_[1] + c[2] * t_[2]))
    return out


def replay_runner(args):
    import random

    rnd = random.Random(7)
    tens = {}

    def mk(name):
        if name not in tens:
            tens[name] = rnd.uniform(-2, 2)
        return tens[name]

    V = dict(args["values"])
    prs = runner_wiring_pairs(args["kind"], args["proj"], V, mk)
    bad = harness.float_pairs_differ(prs, None, rtol=1e-9)
    return (True, f"{args['kind']}/{args['proj']} at {V}: {bad[:2]}") if bad else (False, "card values reach the normalisation")


def replay_case(args):
    import random

    vals = dict(args["values"])
    rnd = random.Random(5)
    tens = {}

    def mk(name):
        if name not in tens:
            tens[name] = args.get("tensors", {}).get(name, rnd.uniform(-2, 2))
        return tens[name]

    try:
        prs = pairs_for(args["case"], params(values=vals), mk)
    except Exception as e:  # noqa  -- admissible kinematics (x, y in (0,1], Q2 > 0): a raise is the violation being replayed
        return True, f"{args['case']} at {vals}: raises {type(e).__name__}: {e}"
    bad = harness.float_pairs_differ(prs, args.get("label"), rtol=1e-9)
    return (True, f"{args['case']} at {vals}: {bad[:3]}") if bad else (False, "equal at this point")


REPLAYERS = {"case": replay_case, "runner": replay_runner}


def run(chk, only=None):
    from yadism import xs as xsmod
    from yadism.esf import exs, result

    chk.encode(exs.xs_coeffs_unpolarized, exs.xs_coeffs_polarized, exs.EvaluatedCrossSection.__init__,
               exs.EvaluatedCrossSection.get_result, exs.EvaluatedCrossSection.alpha_qed_power, result.ESFResult.__add__,
               result.ESFResult.__mul__, result.ESFResult.__rmul__, xsmod.CrossSection.load, xsmod.CrossSection.get_esf,
               xsmod.CrossSection.get_result)
    chk.bounds = {"x,y": "(0,1] symbolic", "Q2, M_h^2, M_W^2, G_F": "> 0 symbolic", "tensors": "1x2 formal entries, 4 order keys "
                  "incl. scale-variation keys", "kinds": "all ten", "projectiles": "e-, e+, nu, nubar", "flavours": "total, charm"}
    chk.stub("Runner.get_sf(...).get_esf(...) -> formal tensors (records the requests)", "sqrt(M_h^2) -> atom with s>=0, s^2=M_h^2")
    chk.assume("XSFPFCC normalisation oracle is G_F^2/(4 pi x (1+Q2/MW2)^2) in pb (standard derivation); docs/theory/intro.rst prints "
               "8 pi -- recorded as a doc/code tension, not alarmed on", "error tensors combine with the same linear coefficients")
    q = chk.tier == "quick"
    for kind, flav, pid, prev_y0 in itertools.product(XS_KINDS, ["total", "charm"], [11, -11, 12, -12], [True, False]):  # the y = 0 history first: it is then the first point of its kind in the process
        if q and flav == "charm" and pid in (-11, 12):
            continue
        if prev_y0 and (flav != "total" or kind == "g5"):
            continue
        case = dict(kind=kind, flavor=flav, pid=pid, prev_y0=prev_y0)
        cname = f"{kind}_{flav}/pid{pid}" + ("/earlier point at y=0" if prev_y0 else "")
        with Ctx(chk.seed) as ctx:
            names = {}

            def mk(name):
                if name not in names:
                    names[name] = ctx.var("T|" + name, None, None, wlo=-2, whi=2)
                return names[name]

            def body():
                # numpy of exs.py through the shim: a tolerance test (np.isclose) on a coefficient is a path, explored with the single-flip policy
                with npshim.patched((exs, "np", npshim.NPShim())):
                    return pairs_for(case, params(ctx), mk)

            ex = explore.Explorer(ctx, max_paths=16, timeout_ms=5000)
            paths = ex.run(body)
            chk.paths += len(paths)
            for p in paths:
                ctx.assign = dict(p.assign)  # replays fall back to this path's witness point
                if p.kind == "exc":
                    chk.obligations += 1
                    chk.report(f"raise:{kind}", f"{cname}: raises {type(p.value).__name__}: {str(p.value)[:100]}", "case",
                               dict(case=case, values={k: float(v) for k, v in p.assign.items() if "|" not in k and k != "Mh"}))
                    continue

                def rp_for(lab, ctx=ctx, case=case):
                    def rp(model):
                        asg = explore.model_to_assign(ctx, model)
                        g = lambda n: float(asg.get(n, ctx.assign.get(n, 1)))
                        vals = {k: g(k) for k in ("x", "y", "Q2", "M2h", "M2W", "GF", "pol")}
                        tens = {n[2:]: g(n) for n in ctx.vars if n.startswith("T|")}
                        return "case", dict(case=case, values=vals, tensors=tens, label=lab)
                    return rp

                harness.prove_pairs(chk, cname, p.value, ctx.facts() + p.pc, rp_for,
                                    lambda lab, kind=kind: f"xs:{kind}:{lab.split('[')[0]}",
                                    sample={"case": case, "pairs": len(p.value), "path_condition": [str(c)[:80] for c in p.pc[:2]]})
    # ---- the same through the real Runner: MW, MP, GF of the theory card reach the normalisation ----
    for kind, proj in itertools.product(["XSCHORUSCC", "XSNUTEVCC", "XSNUTEVNU", "XSFPFCC", "XSHERACC", "FW", "XSHERANC"],
                                        ["neutrino", "antineutrino", "positron"]):
        if q and (len(kind) + len(proj)) % 2:
            continue
        cname = f"runner-wiring:{kind}/{proj}"
        with Ctx(chk.seed) as ctx:
            names = {}

            def mk(name):
                if name not in names:
                    names[name] = ctx.var("T|" + name, None, None, wlo=-2, whi=2)
                return names[name]

            def body(kind=kind, proj=proj):
                V = dict(x=ctx.var("x", 0, 1, hi_open=False, wlo=0.1, whi=0.9), y=ctx.var("y", 0, 1, hi_open=False), Q2=ctx.var("Q2", 0, None, wlo=1, whi=200),
                         MW=ctx.var("MW", 0, None, wlo=70, whi=90), MP=ctx.var("MP", 0, None, wlo=0.5, whi=1.5), GF=ctx.var("GF", 0, None, wlo=1e-5, whi=2e-5))
                return runner_wiring_pairs(kind, proj, V, mk)

            ex = explore.Explorer(ctx, max_paths=16, timeout_ms=5000)
            paths = ex.run(body)
            chk.paths += len(paths)
            if not any(p.kind == "ok" for p in paths):
                chk.inconclusive_note(f"{cname}: vacuity -- no computing path ({[str(p.value)[:80] for p in paths[:2]]})")
            for p in paths:
                ctx.assign = dict(p.assign)
                if p.kind == "exc":
                    if isinstance(p.value, ValueError):
                        continue
                    chk.inconclusive_note(f"{cname}: raises {type(p.value).__name__}: {str(p.value)[:100]}")
                    continue

                def rp_for(lab, ctx=ctx, kind=kind, proj=proj):
                    def rp(model):
                        asg = explore.model_to_assign(ctx, model)
                        g = lambda n: float(asg.get(n, ctx.assign.get(n, 1)))
                        return "runner", dict(kind=kind, proj=proj, values={k: g(k) for k in ("x", "y", "Q2", "MW", "MP", "GF")})
                    return rp

                harness.prove_pairs(chk, cname, p.value, ctx.facts() + p.pc, rp_for, lambda lab, kind=kind: f"xs:runner-wiring:{kind}")
    # vacuity / perturbation: swapping yL and y+ must be refuted
    with Ctx(chk.seed) as ctx:
        V = params(ctx)
        got = exs.xs_coeffs_unpolarized("XSHERACC", V["y"], V["x"], V["Q2"], dict(projectilePID=11, M2target=V["M2h"],
                                                                                  M2W=V["M2W"], GF=V["GF"]))
        ref = xsref.coeffs("XSHERACC", V["y"], V["x"], V["Q2"], V["M2h"], V["Mh"], V["M2W"], V["GF"], True)
        chk.expect_sat("perturbed oracle (antilepton sign for a lepton)", ctx.facts() + [S.lift(got[2]).t != S.lift(ref[2]).t],
                       what="perturbation")
        chk.expect_sat("domain", ctx.facts())
    chk.exhaustive = not q
    return chk.finish(
        explanation="The real CrossSection.load/get_esf, EvaluatedCrossSection.get_result, xs_coeffs_(un)polarized and the "
        "ESFResult linear algebra run on symbolic x, y, Q2, M_h^2, M_W^2, G_F and formal structure-function tensors; z3 proves "
        "every entry (values and errors, every order key) equal to N (y+ F2 - yL FL +- y- xF3) with the documented N, y+-, yL "
        "for all parameter values, and checks the wiring (same flavour, same kinematics, TMC-aware request, F3 skipped only "
        "where its coefficient is zero).",
        rule="one obligation per (kind, flavour, projectile, path, order key, entry); distinct = (kind, flavour, projectile); "
        "non-trivial = symbolic kinematics in the coefficient",
    )
