"""C17 -- applying a PDF contracts the operator with the right scales and couplings.

The real ESFResult/EXSResult.apply_pdf and Output.apply_pdf* run on symbolic operator entries, grid
nodes, Q2, xiR, xiF with the PDF, alpha_s and alpha as uninterpreted functions; z3 proves the result
equal to the documented contraction.  Output.apply_pdf_theory runs with eko's Couplings/Atlas/Legacy
replaced by recorders to check how the strong coupling is wired to the theory card.
"""

import itertools
import random

import numpy as np
import z3

from yv.engine import explore, harness, npshim, real
from yv.engine.real import S, Ctx
from yv.props import common as cm

ORDERS = [(0, 0, 0, 0), (1, 0, 0, 0), (2, 0, 1, 1), (2, 1, 2, 0), (3, 0, 0, 2)]
PIDS = [21, 2, -3]
PI = real.Fr("3.141592653589793")


class Env:
    def __init__(self, ctx=None, values=None):
        self.ctx, self.values = ctx, values or {}
        self.names = []

    def var(self, name, lo=None, hi=None, wlo=-2, whi=2, **kw):
        if name not in self.names:
            self.names.append(name)
        if self.ctx is not None:
            return self.ctx.var(name, lo, hi, wlo=wlo, whi=whi, **kw)
        if name not in self.values:
            r = random.Random(hash(name))
            self.values[name] = r.uniform(max(wlo, 0.05) if lo == 0 else wlo, whi)
        return self.values[name]

    def fun(self, name, args):
        if self.ctx is not None:
            return self.ctx.ufun(name, args)
        return real.ufun_witness(name, args)


class PDF:
    def __init__(self, env, missing=(), scale=1, tag="f"):
        self.env, self.missing, self.scale, self.tag = env, set(missing), scale, tag
        self.calls = []

    def hasFlavor(self, pid):
        return pid not in self.missing

    def xfxQ2(self, pid, x, Q2):
        self.calls.append((pid, x, Q2))
        return self.scale * self.env.fun(f"{self.tag}|{pid}", [x, Q2])


class SumPDF:
    """a*f + b*g: for the linearity clause"""

    def __init__(self, f, g, a, b):
        self.f, self.g, self.a, self.b = f, g, a, b

    def hasFlavor(self, pid):
        return self.f.hasFlavor(pid)

    def xfxQ2(self, pid, x, Q2):
        return self.a * self.f.xfxQ2(pid, x, Q2) + self.b * self.g.xfxQ2(pid, x, Q2)


def make_result(env, exs, norders):
    from yadism.esf.result import ESFResult, EXSResult

    x, Q2 = env.var("x", 0, 1, wlo=0.1, whi=0.9), env.var("Q2", 0, None, wlo=2, whi=50)
    r = EXSResult(x, Q2, env.var("y", 0, 1, wlo=0.1, whi=0.9), 4) if exs else ESFResult(x, Q2, 4)
    for o in ORDERS[:norders]:
        v = np.empty((len(PIDS), 2), dtype=object)
        e = np.empty((len(PIDS), 2), dtype=object)
        for a, b in itertools.product(range(len(PIDS)), range(2)):
            v[a, b] = env.var(f"O{o}[{a},{b}]")
            e[a, b] = env.var(f"E{o}[{a},{b}]")
        r.orders[o] = (v, e)
    return r


def expected(env, res, pdf, nodes, a_s_fun, a_em_fun, xiR, xiF, missing):
    Q2 = res.Q2
    muF2 = Q2 * xiF * xiF
    muR = np.sqrt(Q2) * xiR
    a_s = a_s_fun(muR) / (4 * PI)
    a_em = a_em_fun(muR)
    LR = np.log(1 / (xiR * xiR))
    LF = np.log(1 / (xiF * xiF))
    val = err = 0
    for o, (v, e) in res.orders.items():
        pref = a_s ** o[0] * a_em ** o[1] * LR ** o[2] * LF ** o[3]
        cv = ce = 0
        for a, pid in enumerate(PIDS):
            if pid in missing:
                continue
            for j, xj in enumerate(nodes):
                f = pdf.xfxQ2(pid, xj, muF2) / xj
                cv = cv + v[a, j] * f
                ce = ce + e[a, j] * f
        val = val + pref * cv
        err = err + pref * ce
    return val, err


def pairs_for(case, env):
    from yadism.esf import result as resmod

    exs, norders, missing = case["exs"], case["norders"], tuple(case["missing"])
    res = make_result(env, exs, norders)
    nodes = [env.var("x0", 0, 1, wlo=0.01, whi=0.4), env.var("x1", 0, 1, hi_open=False, wlo=0.5, whi=1.0)]
    xiR, xiF = env.var("xiR", 0, None, wlo=0.5, whi=2), env.var("xiF", 0, None, wlo=0.5, whi=2)
    a_s_fun = lambda mu: env.fun("alpha_s", [mu])
    a_em_fun = lambda mu: env.fun("alpha_em", [mu])
    pdf = PDF(env, missing)
    with npshim.patched((resmod, "np", npshim.ObjZerosShim())):
        got = res.apply_pdf(pdf, PIDS, nodes, a_s_fun, a_em_fun, xiR, xiF)
        out = []
        ev, ee = expected(env, res, PDF(env, missing), nodes, a_s_fun, a_em_fun, xiR, xiF, missing)
        out.append(("result", got["result"], ev))
        out.append(("error", got["error"], ee))
        out.append(("x echoed", got["x"] is res.x, True))
        out.append(("Q2 echoed", got["Q2"] is res.Q2, True))
        if exs:
            out.append(("y echoed", got.get("y") is res.y, True))
        # PDF evaluated only at the factorisation scale and at grid nodes, never for missing flavours
        muF2 = res.Q2 * xiF * xiF
        for (pid, xx, q2) in pdf.calls:
            out.append((f"pdf[{pid}] evaluated at muF^2 = xiF^2 Q2", q2, muF2))
        out.append(("missing flavours never evaluated", all(pid not in missing for pid, _, _ in pdf.calls), True))
        out.append(("every provided flavour evaluated at every node", len(pdf.calls) == (len(PIDS) - len(missing)) * len(nodes), True))
        # linearity: the composite PDF a f + b g goes through the same proven formula, which is linear in the PDF values
        if case.get("linear"):
            a, b = env.var("lin_a"), env.var("lin_b")
            f, g = PDF(env, missing, tag="f"), PDF(env, missing, tag="g")
            rs = res.apply_pdf(SumPDF(f, g, a, b), PIDS, nodes, a_s_fun, a_em_fun, xiR, xiF)
            sv, se = expected(env, res, SumPDF(PDF(env, missing, tag="f"), PDF(env, missing, tag="g"), a, b), nodes, a_s_fun, a_em_fun,
                              xiR, xiF, missing)
            out.append(("composite PDF a f + b g: result", rs["result"], sv))
            out.append(("composite PDF a f + b g: error", rs["error"], se))
    return out


def replay_case(args):
    env = Env(None, values=dict(args.get("values", {})))
    try:
        prs = pairs_for(args["case"], env)
    except Exception as e:  # noqa
        return True, f"{args['case']}: raises {type(e).__name__}: {e}"
    bad = harness.float_pairs_differ(prs, args.get("label"), rtol=1e-9)
    return (True, f"{args['case']}: {bad[:3]}") if bad else (False, "equal to the documented contraction at this point")


# ---- Output level ---------------------------------------------------------------------------

def output_wiring(fns, nfff, record, other_card=False):
    """Output.apply_pdf_theory with eko replaced by recorders; returns observations.
    other_card: apply_pdf_theory is called with a card that differs from the one stored in the output (scale ratios, coupling reference)."""
    from yadism import output as outmod
    from yadism.esf.result import ESFResult

    theory = dict(FNS=fns, NfFF=nfff, ModEv="EXA", Qref=91.2, nfref=5, alphaqed=0.0077, XIR=1.3, XIF=0.7, alphas=0.118, PTO=2, PTODIS=2,
                  QED=0, HQ="POLE", MaxNfPdf=6, MaxNfAs=6, Q0=1.65, nf0=4, IC=0, IB=0, TMC=0, MP=0.938, Qmc=1.51, Qmb=4.92, Qmt=172.5,
                  mc=1.51, mb=4.92, mt=172.5, kcThr=1.1, kbThr=1.2, ktThr=1.3)

    class Legacy:
        MOD_EV2METHOD = {"EXA": "iterate-exact"}

        def __init__(self, theory, operator):
            record["legacy_theory"] = theory

            class Heavy:
                # eko's Legacy reads the heavy-quark block from the card it is given
                masses = [(theory["mc"], None), (theory["mb"], None), (theory["mt"], None)]
                matching_ratios = [theory["kcThr"], theory["kbThr"], theory["ktThr"]]
                masses_scheme = "POLE-token"

            class NewTheory:
                heavy = Heavy()
                couplings = ("couplings-token", theory["alphas"], theory["Qref"])
                order = "order-token"

            self.new_theory = NewTheory()

    class Runcards:
        pass

    Runcards.Legacy = Legacy

    class Couplings:
        def __init__(self, **kw):
            record["couplings_kwargs"] = kw
            self.kw = kw

        def a_s(self, mu2, nf_to=None):
            record.setdefault("a_s_calls", []).append((mu2, nf_to))
            record["a_s_served_by"] = self.kw
            return 0.01 * mu2 ** 0.1 + 0.001 * nf_to

    class Atlas:
        def __init__(self, matching_scales, origin):
            record["atlas"] = (list(matching_scales), origin)

    def nf_default(mu2, atlas):
        record.setdefault("nf_default_calls", []).append(mu2)
        return 3 + sum(1 for s in record["atlas"][0] if s <= mu2)

    out = outmod.Output()
    out.theory = theory
    out["xgrid"] = {"grid": [0.1, 1.0], "log": True}
    out["pids"] = [21, 2]
    r = ESFResult(0.3, 50.0, 4)
    r.orders[(1, 0, 0, 0)] = (np.ones((2, 2)), np.zeros((2, 2)))
    out["F2_total"] = [r]
    out["FL_total"] = None
    out["not_an_observable"] = 3
    seen = {}

    class PDFc:
        def hasFlavor(self, pid):
            return True

        def xfxQ2(self, pid, x, Q2):
            seen.setdefault("muF2", set()).add(Q2)
            return 1.0

    with npshim.patched((outmod, "runcards", Runcards), (outmod, "Couplings", Couplings), (outmod, "Atlas", Atlas),
                        (outmod, "nf_default", nf_default), (outmod, "couplings_mod_ev", lambda m: ("mod_ev", m)),
                        (outmod, "dictlike", type("D", (), {"load_enum": staticmethod(lambda enum, m: ("enum", m))}))):
        if other_card == "second":
            # the same Output serves a second card that differs only in the heavy-quark block (masses, matching ratios)
            out.apply_pdf(PDFc())
            for k in ("a_s_calls", "nf_default_calls"):
                record.pop(k, None)
            seen.clear()
            used = dict(theory, mc=1.3, mb=4.5, kcThr=1.4, kbThr=0.9)
            res = out.apply_pdf_theory(PDFc(), used)
            return used, res, seen
        if other_card:
            used = dict(theory, XIR=0.9, XIF=1.6, alphas=0.13, Qref=10.0, mc=1.3)
            res = out.apply_pdf_theory(PDFc(), used)
            return used, res, seen
        res = out.apply_pdf(PDFc())
    return theory, res, seen


def check_output(fns, nfff):
    out = []
    for other in (False, True, "second"):
        tag = {False: "", True: " [card passed to apply_pdf_theory differs from the stored one]",
               "second": " [second card on the same Output, only the heavy-quark block differs]"}[other]
        out += [(lab + tag, a, b) for lab, a, b in _check_output(fns, nfff, other)]
    return out


def _check_output(fns, nfff, other_card):
    rec = {}
    try:
        theory, res, seen = output_wiring(fns, nfff, rec, other_card)
    except ValueError as e:
        return [("unknown scheme rejected", fns not in ("ZM-VFNS", "FFNS", "FFN0", "FONLL-FFNS", "FONLL-FFN0"), True)]
    obs = []
    Q2, xiR, xiF = 50.0, theory["XIR"], theory["XIF"]
    muR2 = (np.sqrt(Q2) * xiR) ** 2
    calls = rec.get("a_s_calls", [])
    obs.append(("alpha_s evaluated once at muR^2 = (xiR Q)^2", len(calls) == 1 and abs(calls[0][0] - muR2) < 1e-9 * muR2, True))
    if "FFNS" in fns or "FFN0" in fns:
        obs.append(("fixed-flavour schemes run alpha_s with nf = NfFF", calls and calls[0][1] == nfff, True))
    else:
        scales = [(theory[m] * theory[k]) ** 2 for m, k in (("mc", "kcThr"), ("mb", "kbThr"), ("mt", "ktThr"))]
        want = 3 + sum(1 for s in scales if s <= muR2)
        obs.append(("ZM-VFNS runs alpha_s with the number of flavours active at muR", calls and calls[0][1] == want, True))
        obs.append(("matching scales are (m k)^2", all(abs(a - b) < 1e-9 * b for a, b in zip(rec["atlas"][0], scales)), True))
    kw = rec.get("couplings_kwargs", {})
    obs.append(("Couplings built from the card's couplings/order/method/masses/thresholds",
                kw.get("couplings") == ("couplings-token", theory["alphas"], theory["Qref"]) and kw.get("order") == "order-token"
                and kw.get("method") == ("mod_ev", ("enum", "iterate-exact"))
                and list(kw.get("masses", [])) == [theory["mc"] ** 2, theory["mb"] ** 2, theory["mt"] ** 2] and kw.get("hqm_scheme") == "POLE-token"
                and all(abs(a - b) < 1e-12 for a, b in zip(kw.get("thresholds_ratios", []), [theory["kcThr"] ** 2, theory["kbThr"] ** 2, theory["ktThr"] ** 2])), True))
    served = rec.get("a_s_served_by") or {}
    obs.append(("alpha_s is served by a Couplings object built from THIS card (masses, thresholds, reference)",
                list(served.get("masses", [])) == [theory["mc"] ** 2, theory["mb"] ** 2, theory["mt"] ** 2]
                and served.get("couplings") == ("couplings-token", theory["alphas"], theory["Qref"])
                and all(abs(a - b) < 1e-12 for a, b in zip(served.get("thresholds_ratios", []), [theory["kcThr"] ** 2, theory["kbThr"] ** 2, theory["ktThr"] ** 2])), True))
    obs.append(("the card handed to eko is the theory card", rec.get("legacy_theory") is theory, True))
    obs.append(("PDF evaluated at muF^2 = xiF^2 Q2", seen.get("muF2") == {Q2 * xiF ** 2}, True))
    a_s = (0.01 * muR2 ** 0.1 + 0.001 * calls[0][1]) if calls else 0
    # operator of ones, pdf == 1: result = a_s * sum_{p,j} 1/x_j  (alpha_s = 4 pi a_s, divided again by 4 pi inside apply_pdf)
    want_val = a_s * 2 * (1 / 0.1 + 1 / 1.0)
    got = res["F2_total"][0]["result"] if "F2_total" in res else None
    obs.append(("prediction uses 4 pi a_s(muR^2) of the card", got is not None and abs(got - want_val) < 1e-9 * abs(want_val), True))
    obs.append(("None observables and non-observable keys are skipped", set(res.keys()) == {"F2_total"}, True))
    return obs


def replay_output(args):
    bad = [l for l, a, b in check_output(args["fns"], args["nfff"]) if bool(a) != bool(b)]
    return (True, f"{args}: {bad}") if bad else (False, "wiring as documented")


REPLAYERS = {"case": replay_case, "output": replay_output}


def float_pairs_case(args):
    return pairs_for(args["case"], Env(None, values=dict(args.get("values", {}))))


REPLAYERS["case:pairs"] = float_pairs_case


def run(chk, only=None):
    from yadism import output as outmod
    from yadism.esf import result as resmod

    chk.encode(resmod.ESFResult.apply_pdf, resmod.EXSResult.apply_pdf, outmod.Output.apply_pdf, outmod.Output.apply_pdf_theory,
               outmod.Output.apply_pdf_alphas_alphaqed_xir_xif, outmod.MaskedPDF.xfxQ2)
    chk.bounds = {"operator": "<= 5 order keys incl. mixed log powers and an alpha power, 3 pids x 2 nodes, symbolic entries",
                  "x_j, Q2, xiR, xiF": "> 0 symbolic", "PDF, alpha_s, alpha": "uninterpreted functions", "missing flavours": "every subset of size <= 1 + one of size 2"}
    chk.stub("np.zeros in result.py -> object array", "sqrt/log -> atoms", "Output level: eko Couplings/Atlas/runcards.Legacy/nf_default -> recorders")
    chk.assume("eko's running coupling itself is outside")
    q = chk.tier == "quick"
    cases = []
    for exs, norders, missing, linear in itertools.product([False, True], [1, 3, 5], [(), (21,), (2,), (-3,), (21, -3)], [False, True]):
        if q and (exs + norders + len(missing) + 2 * linear) % 3:
            continue
        cases.append(dict(exs=exs, norders=norders, missing=list(missing), linear=linear))
    if only in (None, "result"):
        for case in cases:
            cname = ":".join(f"{k}={v}" for k, v in case.items())
            with Ctx(chk.seed) as ctx:
                env = Env(ctx)
                # under the explorer: any test on the scale ratios, the couplings or the operator entries inside apply_pdf is a path
                # (e.g. a shortcut for xiR == 1 or xiF == 1), explored with the flipped side decided by the solver
                ex = explore.Explorer(ctx, max_paths=16 if q else 64, timeout_ms=5000)
                paths = ex.run(lambda case=case, env=env: pairs_for(case, env))
                chk.paths += len(paths)
                if ex.bound_hit:
                    chk.inconclusive_note(f"{cname}: path bound hit")
                for p in paths:
                    ctx.assign = dict(p.assign)  # replays fall back to this path's witness point
                    if p.kind == "exc":
                        chk.obligations += 1
                        chk.report(f"raise:{cname}", f"{cname}: raises {type(p.value).__name__}: {str(p.value)[:120]}", "case",
                                   dict(case=case, values={n: float(v) for n, v in p.assign.items() if n in env.names}))
                        continue

                    def rp_for(lab, ctx=ctx, case=case, env=env):
                        def rp(model):
                            asg = explore.model_to_assign(ctx, model)
                            return "case", dict(case=case, values={n: float(asg.get(n, ctx.assign.get(n, 1))) for n in env.names}, label=lab)
                        return rp

                    harness.prove_pairs(chk, cname, p.value, ctx.facts() + p.pc, rp_for, lambda lab: f"apply_pdf:{lab.split('[')[0][:40]}",
                                        sample={"case": case, "claims": [l for l, _, _ in p.value][:6], "path_condition": [str(c)[:80] for c in p.pc[:2]]})
        with Ctx(chk.seed) as ctx:
            env = Env(ctx)
            prs = pairs_for(dict(exs=False, norders=3, missing=[], linear=False), env)
            chk.expect_sat("perturbed oracle (x_j dropped)", ctx.facts() + [S.lift(prs[0][1]).t != (S.lift(prs[0][2]) * env.var("x0", 0, 1)).t],
                           what="perturbation", ctx=ctx)
            chk.expect_sat("domain", ctx.facts())
    if only in (None, "output"):
        for fns, nfff in itertools.product(["ZM-VFNS", "FFNS", "FFN0", "FONLL-FFNS", "FONLL-FFN0", "nonsense"], [3, 4, 5]):
            for lab, a, b in check_output(fns, nfff):
                chk.obligations += 1
                chk.evaluations += 1
                if bool(a) == bool(b):
                    chk.discharged += 1
                else:
                    chk.report(f"output:{fns}:{lab[:40]}", f"apply_pdf_theory({fns}, NfFF={nfff}): {lab} -- violated", "output", dict(fns=fns, nfff=nfff))
    # MaskedPDF
    if only in (None, "output"):
        env = Env(None)
        base = PDF(env)
        m = outmod.MaskedPDF(base, [2, 21])
        okm = m.xfxQ2(2, 0.3, 10.0) == base.xfxQ2(2, 0.3, 10.0) and m.xfxQ2(3, 0.3, 10.0) == 0.0 and m.hasFlavor(3) == base.hasFlavor(3)
        chk.obligations += 1
        if okm:
            chk.discharged += 1
        else:
            chk.report("maskedpdf", "MaskedPDF does not zero exactly the inactive pids", "output", dict(fns="ZM-VFNS", nfff=4))
    return chk.finish(
        explanation="The real ESFResult/EXSResult.apply_pdf run on symbolic operator entries (several order keys with mixed log and "
        "alpha powers), symbolic grid nodes, Q2, xiR, xiF and uninterpreted PDF/alpha_s/alpha; z3 proves result and error equal to "
        "sum_o (alpha_s(xiR Q)/4pi)^k alpha^l ln^i(1/xiR^2) ln^j(1/xiF^2) sum_{p,j} O[p,j] f(p,x_j,xiF^2 Q2)/x_j, that the PDF is "
        "evaluated only at muF^2 and never for flavours it does not provide, and linearity in the PDF. Output.apply_pdf_theory is run "
        "with eko replaced by recorders for every scheme: alpha_s(muR^2) with nf_to = NfFF (fixed-flavour) or the flavours active at "
        "muR (ZM-VFNS), built from the card's couplings, order, method, masses and (m k)^2 matching scales, times 4 pi.",
        rule="one obligation per (case, claim); distinct = case; non-trivial = symbolic operator and scales",
    )
