"""C07 -- heavyness, FONLL-part and coupling-restricted results add up.

Every observable is the formal linear form  sum_kernels sum_p w_p e_p (x) K  produced by the real
Combiner; additivity is an identity between such forms, proved by z3 for all electroweak parameters.
"""

import itertools

import z3

from yv.engine import explore, harness, real, stubs
from yv.engine.real import S, Ctx
from yv.props import common as cm

HEAVY = {4: "charm", 5: "bottom", 6: "top"}
POS = ["dd", "uu", "ss", "cc", "bb", "tt"]


def scheme_cells():
    """(scheme, nf, ZMq) as update_fns/Atlas produce them (C06 checks that derivation)."""
    out = []
    for nf in (3, 4, 5, 6):
        out.append(("ZM-VFNS", nf, (True, True, True)))
    for sch in ("FFNS", "FFN0"):
        for nf in (3, 4, 5):
            out.append((sch, nf, tuple(k + 4 <= nf for k in range(3))))
    for sch in ("FONLL-FFNS", "FONLL-FFN0"):
        for nf in (3, 4, 5):
            out.append((sch, nf, tuple(not (k + 4 == nf + 1) for k in range(3))))
    return out


def cells(tier):
    out = []
    q = tier == "quick"
    for kind, proc, pid, (sch, nf, zm), pto in itertools.product(cm.KINDS, ["EM", "NC", "CC"], [11, -12], scheme_cells(),
                                                                 [0, 1, 2, 3]):
        if proc == "CC" and kind in ("g1", "gL", "g4"):
            continue
        if kind == "g1" and pto == 3:
            continue
        if q and (nf + pto + len(kind) + len(proc) + abs(pid) + len(sch)) % 4:
            continue
        base = dict(kind=kind, process=proc, pid=pid, scheme=sch, nf=nf, ZMq=zm, pto=pto)
        if sch.startswith("FONLL"):
            out.append(dict(rel="fonllparts", **base))
        else:
            out.append(dict(rel="heavyness", **base))
        if proc != "CC" and sch in ("ZM-VFNS", "FFNS"):
            out.append(dict(rel="poscharge", **base))
    return out


def _run(P, cell, Q2, flav, fonllparts="full", nc_pos=None):
    ks = cm.run_combiner(P, obs=f"{cell['kind']}_{flav}", process=cell["process"], pid=cell["pid"], Q2=Q2,
                         scheme=cell["scheme"], nf=cell["nf"], ZMq=cell["ZMq"], pto=cell["pto"],
                         pto_evol=min(cell["pto"], 2), fonllparts=fonllparts, nc_pos=nc_pos)
    return cm.linear_form(ks)


def _add(*forms):
    out = {}
    for f in forms:
        for k, v in f.items():
            out[k] = out.get(k, 0) + v
    return out


def _pairs(lhs, rhs, tag=""):
    return [(f"{tag}{k[0][0]}/m{k[0][2]}/o{k[0][3]}-{k[0][4]}[{k[1]}]", lhs.get(k, 0), rhs.get(k, 0))
            for k in sorted(set(lhs) | set(rhs), key=str)]


def pairs_for(cell, P, Q2):
    rel = cell["rel"]
    out = []
    if rel == "heavyness":
        total = _run(P, cell, Q2, "total")
        light = _run(P, cell, Q2, "light")
        if cell["scheme"] == "ZM-VFNS":
            out += _pairs(total, light, "total==light:")
        else:
            massive = [h for h in (4, 5, 6) if not cell["ZMq"][h - 4]]
            parts = [light] + [_run(P, cell, Q2, HEAVY[h]) for h in massive]
            out += _pairs(total, _add(*parts), "total==light+massive:")
        # flavours the scheme treats as massless: F_q is the q-coupled part OF light (containment)
        if cell["process"] != "CC":
            for h in (4, 5, 6):
                if cell["ZMq"][h - 4] and h <= cell["nf"]:
                    fq = _run(P, cell, Q2, HEAVY[h])
                    lq = _run(P, cell, Q2, "light", nc_pos=2 * "duscbt"[h - 1])
                    # light[nc_pos=qq] additionally contains the 'missing' kernels of heavier massive quarks
                    lq = {k: v for k, v in lq.items() if not k[0][0].startswith("heavy.") and ".Asy" not in k[0][0]}
                    out += _pairs(fq, lq, f"{HEAVY[h]}==light[{'duscbt'[h-1]*2}]:")
    elif rel == "fonllparts":
        # every flavour, not only the one that is massive in this FONLL cell (an already massless quark has an empty 'massive' part)
        for flav in ("total", "light", "charm", "bottom", "top"):
            full = _run(P, cell, Q2, flav, "full")
            ml = _run(P, cell, Q2, flav, "massless")
            mv = _run(P, cell, Q2, flav, "massive")
            out += _pairs(full, _add(ml, mv), f"{flav}:full==massless+massive:")
    elif rel == "poscharge":
        for flav in ("total", "light"):
            none = _run(P, cell, Q2, flav, nc_pos=None)
            allq = _run(P, cell, Q2, flav, nc_pos="all")
            out += _pairs(none, allq, f"{flav}:None==all:")
            parts = [_run(P, cell, Q2, flav, nc_pos=qq) for qq in POS]
            out += _pairs(none, _add(*parts), f"{flav}:sum_qq==unrestricted:")
    return out


def replay_cell(args):
    P = cm.ew_params(values=args["params"])
    cell = dict(args["cell"])
    cell["ZMq"] = tuple(cell["ZMq"])
    with cm.fixed_nf():
        prs = pairs_for(cell, P, float(args["params"].get("Q2", 10.0)))
    bad = harness.float_pairs_differ(prs, args.get("label"))
    return (True, f"{cell}: {bad[:3]}") if bad else (False, "relation holds at this point")


REPLAYERS = {"cell": replay_cell}


def float_pairs_cell(args):
    cell = dict(args["cell"])
    cell["ZMq"] = tuple(cell["ZMq"])
    with cm.fixed_nf():
        return pairs_for(cell, cm.ew_params(values=args["params"]), float(args["params"].get("Q2", 10.0)))


REPLAYERS["cell:pairs"] = float_pairs_cell


SHARDABLE = True


def run(chk, only=None):
    import yadism.coefficient_functions as cf
    from yadism.coefficient_functions import coupling_constants as ccmod
    from yadism.coefficient_functions import kernels as K
    from yadism.coefficient_functions.asy import kernels as AK
    from yadism.coefficient_functions.heavy import kernels as HK
    from yadism.coefficient_functions.intrinsic import kernels as IK
    from yadism.coefficient_functions.light import kernels as LK

    chk.encode(cf.Combiner.collect, cf.Combiner.light_component, cf.Combiner.heavylight_components,
               cf.Combiner.heavy_components, cf.Combiner.collect_elems, cf.Combiner.apply_isospin, cf.Combiner.drop_empty,
               K.Kernel.has_order, K.Kernel.__rmul__, K.generate_single_flavor_light, LK.generate, HK.generate,
               HK.generate_missing, IK.generate, AK.generate_heavy_asy, AK.generate_intrinsic_asy, AK.generate_missing_asy,
               ccmod.CouplingConstants.get_weight, ccmod.CouplingConstants.get_fl11_weight)
    allc = cells(chk.tier)
    chk.bounds = {"continuous": "all EW parameters and Q2 symbolic, unbounded", "cells": len(allc),
                  "reading": "the sum over heavy flavours runs over flavours massive in the scheme; for flavours the scheme treats "
                             "as massless F_q is asserted to be the q-coupled part of light (DESIGN §4 C07)"}
    chk.stub("nf_default -> enumerated nf; LeProHQ/adani/li2 -> atoms (constructors only)")
    chk.assume("identities are between kernel lists (formal linear forms in weights x kernel identity); equality of separately "
               "convolved runs follows from linearity of compute_local (C01)")
    for cell in allc:
        if only and only != cell["rel"]:
            continue
        cname = ":".join(f"{k}={v}" for k, v in cell.items())
        if not chk.mine(cname):
            continue
        with Ctx(chk.seed) as ctx, cm.fixed_nf(), cm.generic_drop_empty(), stubs.cf_stubs():

            def body():
                P = cm.ew_params(ctx)
                Q2 = ctx.var("Q2", 0, None, wlo=1, whi=20000)
                return pairs_for(cell, P, Q2)

            ex = explore.Explorer(ctx, max_paths=24, timeout_ms=3000)
            paths = ex.run(body)
            chk.paths += len(paths)
            if ex.bound_hit:
                chk.inconclusive_note(f"{cname}: path bound hit")
            if paths and not any(p.kind == "ok" for p in paths) and not all(isinstance(p.value, (ValueError, NotImplementedError)) for p in paths):
                chk.inconclusive_note(f"{cname}: vacuity -- every path raised ({type(paths[0].value).__name__}: {str(paths[0].value)[:80]})")
            for p in paths:
                ctx.assign = dict(p.assign)  # replays fall back to this path's witness point
                if p.kind == "exc":
                    chk.notes.append(f"{cname}: raises {type(p.value).__name__}: {str(p.value)[:80]} (C16)")
                    chk.section("raised", n=1)
                    continue

                def rp_for(lab, ctx=ctx, cell=cell):
                    def rp(model):
                        asg = explore.model_to_assign(ctx, model)
                        params = {k: float(asg.get(k, ctx.assign.get(k, 1))) for k in cm.EW_PARAMS + ["Q2"]}
                        return "cell", dict(cell=cell, params=params, label=lab)
                    return rp

                harness.prove_pairs(chk, cname, p.value, ctx.facts() + p.pc + p.generic, rp_for,
                                    lambda lab, cell=cell: f"{cell['rel']}:{cell['kind']}:{cell['process']}:{cell['scheme']}:{lab}",
                                    sample={"cell": {k: str(v) for k, v in cell.items()}, "n_pairs": len(p.value)})
    with Ctx(chk.seed) as ctx, cm.fixed_nf(), stubs.cf_stubs():
        P = cm.ew_params(ctx)
        Q2 = ctx.var("Q2", 0, None, wlo=1, whi=20000)
        if not chk.first:
            return chk.finish(explanation="shard of C07 (see the merged evidence)", rule="")
        cell = dict(kind="F2", process="NC", pid=11, scheme="FFNS", nf=3, ZMq=(False, False, False), pto=1)
        total = _run(P, cell, Q2, "total")
        light = _run(P, cell, Q2, "light")
        diff = [S.lift(total[k]).t != S.lift(light.get(k, 0)).t for k in total]
        chk.expect_sat("perturbed relation (FFNS total == light alone)", ctx.facts() + [z3.Or(*diff)], what="perturbation")
        chk.expect_sat("domain", ctx.facts())
    chk.section("cells", n=len(allc))
    chk.exhaustive = chk.tier == "thorough"
    return chk.finish(
        explanation="The real Combiner (collect, light/heavylight/heavy components, all kernel generators, get_weight with "
        "nc_pos_charge) is run on symbolic electroweak parameters for each member of a partition; z3 proves the additivity "
        "identity between the resulting formal linear forms for all parameter values, over the enumerated lattice of kind x "
        "process x projectile x scheme x nf x order.",
        rule="one obligation per (cell, kernel identity, parton); distinct = distinct cell; non-trivial = symbolic weights",
    )
