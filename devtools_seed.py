#!/usr/bin/env python3
"""developer aid: evaluate a seeded change delivered by a sub-agent.
usage: devtools_seed.py <PID> <k> [checks...]   (reads /tmp/wt_<PID>/_seed/change<k>.diff etc.)
Confirms: applies, demo fails with / passes without, test-suite still passes; runs the given checks (default: <PID>);
stores /verif/seeded/<PID>-<k>/{patch.diff, demo.py, notes.md, meta.json}."""
import json, os, shutil, subprocess, sys, time, xml.etree.ElementTree as ET

pid, k = sys.argv[1], sys.argv[2]
checks = sys.argv[3:] or [pid]
src = f"/tmp/wt_{pid}/_seed"
dst = f"/verif/seeded/{pid}-{k}"
os.makedirs(dst, exist_ok=True)
for a, b in ((f"change{k}.diff", "patch.diff"), (f"demo{k}.py", "demo.py"), (f"notes{k}.md", "notes.md")):
    if os.path.exists(f"{src}/{a}"):
        shutil.copy(f"{src}/{a}", f"{dst}/{b}")

def sh(cmd, **kw):
    return subprocess.run(cmd, shell=True, capture_output=True, text=True, **kw)

TREE = os.environ.get("SEED_TREE", "/repo")   # screening mode: a scratch worktree + PYTHONPATH; official mode: /repo itself
if TREE != "/repo" and not os.path.exists(TREE):
    sh(f"git -C /repo worktree add -q {TREE} HEAD")
sh(f"git -C {TREE} checkout -q --detach $(git -C /repo rev-parse HEAD)") if TREE != "/repo" else None
assert sh(f"git -C {TREE} diff --quiet").returncode == 0, "tree dirty"
env = dict(os.environ, PYTHONPATH=f"{TREE}/src", NUMBA_DISABLE_JIT="1", YADISM_SRC=f"{TREE}/src/yadism")
if TREE != "/repo":
    env.update(VERIF_EVIDENCE_DIR=f"/var/tmp/seed_ev_{pid}{k}", VERIF_REPLAY_DIR=f"/var/tmp/seed_ev_{pid}{k}")
meta_mode = "official (/repo)" if TREE == "/repo" else f"screening ({TREE} via PYTHONPATH)"
meta = {"property": pid, "change": int(k), "mode": meta_mode, "ran": []}
def demo():
    r = sh(f"cd /var/tmp && timeout 600 /venv/bin/python {dst}/demo.py", env=env)
    return r.returncode, (r.stdout + r.stderr)[-600:]
rc0, out0 = demo()
meta["demo_without_change_exit"] = rc0
r = sh(f"git -C {TREE} apply {dst}/patch.diff")
if r.returncode != 0:
    print("PATCH DOES NOT APPLY", r.stderr); sys.exit(3)
try:
    rc1, out1 = demo()
    meta["demo_with_change_exit"] = rc1
    meta["demo_with_change_tail"] = out1[-400:]
    # test-suite
    t0 = time.time()
    sh(f"cd {TREE} && rm -rf .hypothesis")
    r = sh(f"cd {TREE} && timeout 1500 /venv/bin/python -m pytest -q -p no:cacheprovider --timeout=900 --continue-on-collection-errors "
           f"--junitxml=/var/tmp/junit_seed_{pid}{k}.xml tests/yadism 2>&1 | tail -3", env=env)
    base = json.load(open("/root/.vp/BASELINE.json"))
    res = {}
    for tc in ET.parse(f"/var/tmp/junit_seed_{pid}{k}.xml").iter("testcase"):
        res[f"{tc.get('classname')}::{tc.get('name')}"] = not any(ch.tag in ("failure", "error", "skipped") for ch in tc)
    failing = [n for n in base["stable_pass"] if not res.get(n)]
    if failing and all("test_runner" in n for n in failing):
        # hypothesis-driven tests in test_runner.py are flaky (also on the unchanged tree): re-run them alone, twice
        for _ in range(2):
            sh(f"cd {TREE} && rm -rf .hypothesis")
            rr = sh(f"cd {TREE} && timeout 600 /venv/bin/python -m pytest -q -p no:cacheprovider tests/yadism/test_runner.py 2>&1 | tail -3", env=env)
            if " failed" not in rr.stdout or "1 failed" in rr.stdout and "test_init" in rr.stdout:
                meta_flaky = failing
                failing = []
                break
    meta["suite_with_change"] = {"stable_failing": failing, "summary": r.stdout.strip().splitlines()[-1] if r.stdout.strip() else ""}
    meta["detected_by"] = {}
    for c in checks:
        t0 = time.time()
        rr = sh(f"cd /verif && timeout 1800 ./vcheck {c} --tier quick", env=env if TREE != "/repo" else None)
        nviol = rr.stdout.count("\nVIOLATION") + (1 if rr.stdout.startswith("VIOLATION") else 0)
        first = [l for l in rr.stdout.splitlines() if l.strip().startswith("what:")][:2]
        meta["detected_by"][c] = {"exit": rr.returncode, "violations": nviol, "first": first, "secs": round(time.time() - t0, 1)}
        meta["ran"].append(f"./vcheck {c} --tier quick  -> exit {rr.returncode}")
        print(c, "exit", rr.returncode, "violations", nviol, first[:1])
        if rr.returncode == 2:
            print("   ", [l for l in rr.stdout.splitlines() if "INCONCLUSIVE" in l or "HARNESS" in l][:3])
finally:
    sh(f"git -C {TREE} checkout -- .")
    sh(f"cd {TREE} && rm -rf .coverage coverage.xml htmlcov .hypothesis")
meta["confirmed"] = bool(rc0 == 0 and meta.get("demo_with_change_exit") == 1 and not meta["suite_with_change"]["stable_failing"])
notes = open(f"{dst}/notes.md").read() if os.path.exists(f"{dst}/notes.md") else ""
meta["needs_to_manifest"] = notes[:1500]
json.dump(meta, open(f"{dst}/meta.json", "w"), indent=1)
print("confirmed:", meta["confirmed"], "| demo without:", rc0, "with:", meta.get("demo_with_change_exit"), "| suite:", meta["suite_with_change"])
