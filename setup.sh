#!/bin/bash
# Build the overlay venv used by every check (offline, idempotent).
#   /verif/.venv = venv of /venv's python + .pth to /venv's site-packages
#   + z3-solver, cvc5, mpmath, crosshair-tool (and its pure deps) from the offline wheelhouse.
# Nothing is installed into /venv itself; yadism resolves to /repo/src (editable install).
set -e
HERE="$(cd "$(dirname "${BASH_SOURCE[0]}")" && pwd)"
V="$HERE/.venv"
STAMP="$V/.ok2"
if [ -f "$STAMP" ] && "$V/bin/python" -c "import z3, numpy, yadism, mpmath" >/dev/null 2>&1; then
  exit 0
fi
exec 9>"$HERE/.venv.lock"
flock 9
if [ -f "$STAMP" ] && "$V/bin/python" -c "import z3, numpy, yadism, mpmath" >/dev/null 2>&1; then
  exit 0
fi
if [ -f "$STAMP" ] && "$V/bin/python" -c "import z3, numpy, yadism" >/dev/null 2>&1; then
  # venv from an earlier revision of this script: only mpmath (C04 moment table) is missing
  PIP_NO_INDEX=1 "$V/bin/pip" install -q --no-index --find-links /opt/veriftools/wheels --no-deps mpmath >/dev/null
  exit 0
fi
rm -rf "$V"
/venv/bin/python -m venv "$V"
SP="$("$V/bin/python" -c 'import sysconfig; print(sysconfig.get_paths()["purelib"])')"
echo "import site; site.addsitedir('/venv/lib/python3.12/site-packages')" > "$SP/zz_overlay.pth"
export PIP_NO_INDEX=1
"$V/bin/pip" install -q --no-index --find-links /opt/veriftools/wheels --no-deps z3-solver cvc5 mpmath >/dev/null
"$V/bin/pip" install -q --no-index --find-links /opt/veriftools/wheels crosshair-tool >/dev/null 2>&1 || \
  "$V/bin/pip" install -q --no-index --find-links /opt/veriftools/wheels --no-deps crosshair-tool typeshed-client typing-inspect pygls lsprotocol importlib-metadata >/dev/null 2>&1 || true
"$V/bin/python" -c "import z3, numpy, yadism, mpmath; assert numpy.__version__.startswith('1.26'), numpy.__version__"
touch "$STAMP"
