#!/bin/bash
# developer aid: screen a list of seeded changes one after the other in a scratch worktree.
# usage: devtools_queue.sh <file with lines "PID k [checks...]"> [tree]
cd /verif || exit 9
tree="${2:-/var/tmp/seedtree2}"
while read -r spec; do
  [ -z "$spec" ] && continue
  set -- $spec
  SEED_TREE="$tree" timeout 3000 ./devtools_seed.py "$@" > "/var/tmp/seed_$1_$2.log" 2>&1
done < "$1"
echo finished > "$1.finished"
