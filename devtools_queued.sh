#!/bin/bash
# developer aid: persistent screening queue. Lines "PID k [checks...]" appended to /var/tmp/queue.txt are screened one after the other
# in the scratch worktree $1 (default /var/tmp/seedtree3); stop with: touch /var/tmp/queue.stop
cd /verif || exit 9
tree="${1:-/var/tmp/seedtree3}"
touch /var/tmp/queue.txt
while [ ! -e /var/tmp/queue.stop ]; do
  spec=$(flock /var/tmp/queue.lock -c 'head -n 1 /var/tmp/queue.txt; sed -i 1d /var/tmp/queue.txt')
  if [ -z "$spec" ]; then sleep 15; continue; fi
  set -- $spec
  SEED_TREE="$tree" timeout 3000 ./devtools_seed.py "$@" > "/var/tmp/seed_$1_$2.log" 2>&1
  echo "$spec" >> /var/tmp/queue.done
done
