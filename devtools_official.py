#!/usr/bin/env python3
"""developer aid: official-mode pass over the kept seeded changes.
For every /verif/seeded/<id>/: git -C /repo apply patch.diff; run the registered quick command of the detecting check(s);
git -C /repo checkout -- . ; record the outcome under "official" in meta.json.  Evidence/replays of these runs go to /var/tmp.
usage: devtools_official.py [seed ids...]   (default: all without an "official" entry)"""
import json, os, re, subprocess, sys, time

os.chdir("/verif")
seeds = sys.argv[1:] or sorted(os.listdir("seeded"))
claimed = {c["property_id"] if "property_id" in c else c.get("id") for c in json.load(open("MANIFEST.json"))["checks"]}

def sh(cmd, **kw):
    return subprocess.run(cmd, shell=True, capture_output=True, text=True, **kw)

for sid in seeds:
    d = f"seeded/{sid}"
    mp = f"{d}/meta.json"
    if not os.path.exists(mp):
        continue
    meta = json.load(open(mp))
    if "official" in meta and "error" not in meta["official"] and not sys.argv[1:]:
        continue
    det = [k for k, v in meta.get("detected_by", {}).items() if v.get("violations", 0) > 0]
    own = meta["property"]
    OVERRIDE = {"C13-8": ["C14"], "C07-8": ["C20"], "C03-3": ["C09"], "C01-4": ["C14"], "C11-5": ["C14"], "C07-4": ["C11"], "C06-3": ["C07"],
                "C05-8": ["C03"], "C01-7": ["C03"], "C01-8": ["C09"], "C09-8": ["C03"], "C14-2": ["C14"], "C06-1": ["C06"],
                "C13-10": ["C14"], "C07-9": ["C06"], "C05-9": ["C14"], "C05-10": ["C15"], "C12-9": ["C20"], "C13-9": ["C12"], "C14-9": ["C10"],
                "C10-9": ["C14"], "C11-9": ["C14"], "C01-11": ["C13"], "C01-12": ["C03"], "C04-11": ["C03"], "C04-12": ["C06"], "C05-11": ["C17"],
                "C05-12": ["C11"], "C07-12": ["C01"], "C09-12": ["C07"], "C10-11": ["C14"], "C13-12": ["C10"], "C14-11": ["C20"], "C14-12": ["C20"],
                "C03-12": ["C18"], "C01-13": ["C02"], "C01-14": ["C04"], "C02-14": ["C07"], "C06-14": ["C13"], "C07-13": ["C14"], "C07-14": ["C10"],
                "C09-13": ["C14"], "C09-14": ["C14"], "C12-13": ["C12"], "C13-14": ["C11"], "C14-13": ["C01"], "C15-14": ["C16"], "C17-13": ["C20"],
                "C01-15": ["C06"], "C05-16": ["C17"], "C06-15": ["C20"], "C12-15": ["C14"], "C14-15": ["C11"], "C01-16": ["C07"], "C14-16": ["C10"],
                "C02-16": ["C06"], "C10-15": ["C14"], "C07-18": ["C14"], "C12-18": ["C14"], "C05-17": ["C14"], "C06-17": ["C14"], "C14-17": ["C11"], "C14-18": ["C10"]}
    # the property's own check first; if it stays silent, the other checks known to see this change
    checks = [own] + [c for c in OVERRIDE.get(sid, det) if c != own]
    assert sh("git -C /repo diff --quiet").returncode == 0, "/repo dirty"
    r = sh(f"git -C /repo apply /verif/{d}/patch.diff")
    if r.returncode != 0:
        meta["official"] = {"error": "patch does not apply: " + r.stderr[-200:]}
        json.dump(meta, open(mp, "w"), indent=1)
        print(sid, "PATCH DOES NOT APPLY")
        continue
    res = {}
    try:
        for c in checks:
            if any(v["exit"] == 1 or (v["exit"] == 124 and v["violation_lines"]) for v in res.values()):
                break
            ev = f"/var/tmp/off_ev/{sid}"
            os.makedirs(ev, exist_ok=True)
            t0 = time.time()
            try:
                p = subprocess.run(f"./vcheck {c} --tier quick", shell=True, capture_output=True, text=True, timeout=3000,
                                   env=dict(os.environ, VERIF_EVIDENCE_DIR=ev, VERIF_REPLAY_DIR=ev))
                out, code = p.stdout + p.stderr, p.returncode
            except subprocess.TimeoutExpired as e:
                out, code = ((e.stdout or b"").decode() if isinstance(e.stdout, bytes) else (e.stdout or "")), 124
            viol = len(re.findall(r"^VIOLATION property=", out, flags=re.M))
            first = [ln.strip()[:220] for ln in out.splitlines() if ln.strip().startswith("what:")][:1]
            res[c] = {"command": f"./vcheck {c} --tier quick", "exit": code, "violation_lines": viol, "first": first, "secs": round(time.time() - t0, 1)}
    finally:
        sh("git -C /repo checkout -- .")
        sh("git -C /repo clean -fdq src")
    meta["official"] = {"repo_head": sh("git -C /repo rev-parse --short HEAD").stdout.strip(), "applied_with": "git -C /repo apply", "runs": res,
                        "detected": any(v["exit"] in (1,) or (v["exit"] == 124 and v["violation_lines"]) for v in res.values())}
    json.dump(meta, open(mp, "w"), indent=1)
    print(sid, {k: (v["exit"], v["violation_lines"], v["secs"]) for k, v in res.items()}, flush=True)
